//! xcheck <property> <machine name> <depth>
//!
//! Wraps an fcmc machine (state = operation history replayed on the real flatcontainer code) as a
//! `stateright::Model`, explores it breadth-first with stateright to the same depth as fcmc's own BFS,
//! and compares the number of unique states and the verdicts. Exit 0: agree; 1: disagree; 2: error.

use fcmc::engine::{self, Machine, OpId, Step};
use fcmc::{props, Mode};
use stateright::{Checker, Model, Property};
use std::hash::{Hash, Hasher};
use std::sync::Arc;

type Factory = Arc<dyn Fn() -> Box<dyn Machine> + Send + Sync>;

#[derive(Clone, Debug)]
struct St {
    hist: Vec<OpId>,
    /// fingerprint of (implementation state, model state); None: every history is its own state
    fp: Option<u128>,
    violated: bool,
}

impl PartialEq for St {
    fn eq(&self, o: &Self) -> bool {
        match (self.fp, o.fp) {
            (Some(a), Some(b)) => a == b && self.violated == o.violated,
            _ => self.hist == o.hist,
        }
    }
}
impl Eq for St {}
impl Hash for St {
    fn hash<H: Hasher>(&self, h: &mut H) {
        match self.fp {
            Some(fp) => fp.hash(h),
            None => self.hist.hash(h),
        }
    }
}

struct Wrapped {
    factory: Factory,
    max_depth: usize,
}

fn replay(m: &mut dyn Machine, hist: &[OpId]) -> bool {
    m.reset();
    for &op in hist {
        match engine::guard(|| m.step(op)) {
            Ok(Step::Ok) => {}
            _ => return false,
        }
    }
    true
}

impl Model for Wrapped {
    type State = St;
    type Action = OpId;

    fn init_states(&self) -> Vec<St> {
        let mut m = (self.factory)();
        m.reset();
        vec![St { hist: vec![], fp: m.fingerprint().map(|s| engine::fp_hash(&s)), violated: false }]
    }

    fn actions(&self, s: &St, out: &mut Vec<OpId>) {
        if s.violated || s.hist.len() >= self.max_depth {
            return;
        }
        let mut m = (self.factory)();
        if replay(m.as_mut(), &s.hist) {
            out.extend(m.enabled());
        }
    }

    fn next_state(&self, s: &St, op: OpId) -> Option<St> {
        let mut m = (self.factory)();
        if !replay(m.as_mut(), &s.hist) {
            return None;
        }
        let mut hist = s.hist.clone();
        hist.push(op);
        // real-code panics are caught inside: a panic would kill the checker thread
        match engine::guard(|| m.step(op)) {
            Ok(Step::Ok) => Some(St { hist, fp: m.fingerprint().map(|s| engine::fp_hash(&s)), violated: false }),
            Ok(Step::Refused(_)) => None,
            Ok(Step::Violation(_)) | Err(_) => Some(St { hist, fp: None, violated: true }),
        }
    }

    fn properties(&self) -> Vec<Property<Self>> {
        vec![Property::always("oracle holds after every step", |_, s: &St| !s.violated)]
    }
}

fn main() {
    engine::install_panic_hook();
    let a: Vec<String> = std::env::args().collect();
    if a.len() < 4 {
        eprintln!("usage: xcheck <property> <machine name> <depth>");
        std::process::exit(2);
    }
    let (prop, name, depth): (&str, &str, usize) = (&a[1], &a[2], a[3].parse().expect("depth"));
    let mut jobs = props::jobs(prop, "quick");
    jobs.extend(props::jobs(prop, "thorough"));
    let Some(job) = jobs.into_iter().find(|j| matches!(j.mode, Mode::Bfs(_)) && (j.factory)().name() == name) else {
        eprintln!("machine {name} not found for {prop}");
        std::process::exit(2);
    };
    let factory: Factory = Arc::from(job.factory);
    // fcmc's own explorer
    let f2 = factory.clone();
    let own = engine::bfs(&*f2, &engine::BfsCfg::new(depth));
    // stateright
    let t0 = std::time::Instant::now();
    let checker = Wrapped { factory, max_depth: depth }.checker().threads(8).spawn_bfs().join();
    let sr_states = checker.unique_state_count();
    let sr_violation = checker.discoveries().contains_key("oracle holds after every step");
    let own_violation = !own.violations.is_empty();
    println!(
        "machine={name} depth={depth} fcmc_states={} fcmc_transitions={} stateright_unique_states={} stateright_generated={} fcmc_violation={} stateright_violation={} stateright_wall_s={:.2}",
        own.states,
        own.transitions,
        sr_states,
        checker.state_count(),
        own_violation,
        sr_violation,
        t0.elapsed().as_secs_f64()
    );
    if own.states as usize == sr_states && own_violation == sr_violation && own.exhaustive {
        println!("AGREE");
        std::process::exit(0);
    }
    println!("DISAGREE");
    std::process::exit(1);
}
