#!/usr/bin/env python3
"""C04, program-text half: exhaustive syntactic enumeration of the finite program text.

This is NOT model checking; it is a finite audit of src/**/*.rs, reported as such in the evidence:
  A1  every `unsafe` token in src/ (there must be exactly one, in StringRegion::index, wrapping
      `std::str::from_utf8_unchecked(self.inner.index(index))`);
  A2  every identifier containing `unchecked` (only that one call);
  A3  every `impl ... Push<X> for StringRegion...` (X must be a string type);
  A4  no blanket `impl<..> Push<..> for <type parameter>`;
  A5  StringRegion's only field is private, and the only place that feeds its inner region is
      `self.inner.push(item.as_bytes())` inside `impl Push<&str>`.
"""
import os, re, json, hashlib

STRING_TYPES = {"String", "&String", "&str", "&&str"}


def strip(src):
    """Remove comments, string/char literals (keeps offsets by replacing with spaces)."""
    out = []
    i, n = 0, len(src)
    while i < n:
        c = src[i]
        two = src[i:i + 2]
        if two == "//":
            j = src.find("\n", i)
            j = n if j < 0 else j
            out.append(" " * (j - i))
            i = j
        elif two == "/*":
            depth, j = 1, i + 2
            while j < n and depth:
                if src[j:j + 2] == "/*":
                    depth += 1
                    j += 2
                elif src[j:j + 2] == "*/":
                    depth -= 1
                    j += 2
                else:
                    j += 1
            out.append("".join(ch if ch == "\n" else " " for ch in src[i:j]))
            i = j
        elif c == '"' or (c == "r" and re.match(r'r#*"', src[i:])) or (c == "b" and re.match(r'b"', src[i:])):
            m = re.match(r'(b?r)(#*)"', src[i:])
            if m:
                hashes = m.group(2)
                end = src.find('"' + hashes, i + len(m.group(0)))
                j = n if end < 0 else end + 1 + len(hashes)
            else:
                j = i + (2 if c == "b" else 1)
                while j < n and src[j] != '"':
                    j += 2 if src[j] == "\\" else 1
                j += 1
            out.append("".join(ch if ch == "\n" else " " for ch in src[i:j]))
            i = j
        elif c == "'":
            m = re.match(r"'(\\.[^']*|[^'\\])'", src[i:])
            if m:
                out.append(" " * len(m.group(0)))
                i += len(m.group(0))
            else:
                out.append(c)  # lifetime
                i += 1
        else:
            out.append(c)
            i += 1
    return "".join(out)


def matching(text, start, open_ch, close_ch):
    depth = 0
    for j in range(start, len(text)):
        if text[j] == open_ch:
            depth += 1
        elif text[j] == close_ch:
            if text[j - 1] == "-" and close_ch == ">":
                continue
            depth -= 1
            if depth == 0:
                return j
    return -1


def lineno(text, pos):
    return text.count("\n", 0, pos) + 1


def run(src_root):
    viol, items = [], []
    files = []
    for d, _, fs in os.walk(src_root):
        for f in fs:
            if f.endswith(".rs"):
                files.append(os.path.join(d, f))
    files.sort()
    unsafe_sites, unchecked_sites, push_impls, blanket = [], [], [], []
    string_rs = None
    for path in files:
        text = strip(open(path).read())
        rel = os.path.relpath(path, os.path.dirname(src_root))
        if rel.endswith("impls/string.rs"):
            string_rs = (rel, text)
        for m in re.finditer(r"\bunsafe\b", text):
            unsafe_sites.append((rel, lineno(text, m.start()), m.start(), text))
        for m in re.finditer(r"\b\w*unchecked\w*\b|\btransmute\w*\b", text):
            unchecked_sites.append((rel, lineno(text, m.start()), m.group(0)))
        for m in re.finditer(r"(?m)^[ \t]*(?:unsafe[ \t]+)?impl\b", text):
            # header up to the opening brace
            brace = text.find("{", m.start())
            semi = text.find(";", m.start())
            if brace < 0 or (0 <= semi < brace):
                continue
            header = " ".join(text[m.start():brace].split())
            if header.startswith("unsafe "):
                header = header[7:]
            pm = re.search(r"\bPush<", header)
            fm = re.search(r"\bfor\b(?!<)", header)
            if not pm:
                continue
            # find " for " that follows the Push<...> trait reference
            close = matching(header, pm.end() - 1, "<", ">")
            if close < 0:
                continue
            arg = header[pm.end():close].strip()
            rest = header[close + 1:].strip()
            if not rest.startswith("for "):
                continue  # a bound like `R: Push<T>` inside generics
            target = rest[4:].split(" where")[0].strip()
            # generic parameters of the impl
            gen = ""
            if header.startswith("impl<"):
                g = matching(header, 4, "<", ">")
                gen = header[5:g]
            params = {p.strip().split(":")[0].strip() for p in re.split(r",(?![^<]*>)", gen) if p.strip() and not p.strip().startswith("'") and not p.strip().startswith("const")}
            if target in params:
                blanket.append((rel, lineno(text, m.start()), header))
            if re.match(r"StringRegion\b", target):
                push_impls.append((rel, lineno(text, m.start()), arg, header))
    items.append({"audit": "A1 unsafe tokens", "found": [f"{r}:{l}" for r, l, _, _ in unsafe_sites]})
    # every unsafe block is enumerated; it is a violation only if it is (or contains) an unchecked
    # conversion outside the string region's read path
    for rel, line, pos, text in unsafe_sites:
        b = text.find("{", pos)
        e = matching(text, b, "{", "}")
        body = "".join(text[b + 1:e].split())
        if re.search(r"unchecked|transmute|from_raw_parts", body) and not rel.endswith("impls/string.rs"):
            viol.append(f"{rel}:{line}: unsafe block with an unchecked conversion outside src/impls/string.rs: `{body[:120]}`")
        if rel.endswith("impls/string.rs"):
            head = text[:pos]
            imp = [" ".join(m.group(0).split()) for m in re.finditer(r"(?m)^[ \t]*impl\b[^{;]*", head)][-1:]
            if not imp or "StringRegion" not in imp[0]:
                viol.append(f"{rel}:{line}: unsafe block outside the impl blocks of StringRegion ({imp})")
    items.append({"audit": "A2 unchecked conversions (*unchecked*, transmute)", "found": [f"{r}:{l} {n}" for r, l, n in unchecked_sites]})
    utf8 = [(r, l, n) for r, l, n in unchecked_sites if "utf8" in n]
    if len(utf8) != 1 or not utf8[0][0].endswith("impls/string.rs"):
        viol.append(f"expected exactly one unchecked UTF-8 conversion, in src/impls/string.rs; found {[f'{r}:{l} {n}' for r, l, n in utf8]}")
    other = [(r, l, n) for r, l, n in unchecked_sites if "utf8" not in n and "str" in n.lower()]
    for r, l, n in other:
        viol.append(f"{r}:{l}: unchecked string conversion `{n}`")
    items.append({"audit": "A3 impl Push<X> for StringRegion", "found": [f"{r}:{l} Push<{a}>" for r, l, a, _ in push_impls]})
    if not push_impls:
        viol.append("no `impl Push<_> for StringRegion` found (parser out of date?)")
    for rel, line, arg, header in push_impls:
        a = arg.replace("'a ", "").replace("'b ", "").replace(" ", "")
        if a not in STRING_TYPES:
            viol.append(f"{rel}:{line}: `{header}` lets a non-string type `{arg}` into a StringRegion")
    items.append({"audit": "A4 blanket Push impls", "found": [f"{r}:{l} {h}" for r, l, h in blanket]})
    for rel, line, header in blanket:
        viol.append(f"{rel}:{line}: blanket `{header}` could apply to StringRegion")
    if string_rs is None:
        viol.append("src/impls/string.rs not found")
    else:
        rel, text = string_rs
        flat = " ".join(text.split())
        m = re.search(r"pub struct StringRegion<[^{]*\{([^}]*)\}", flat)
        fields = m.group(1).strip() if m else None
        writes = []
        for m2 in re.finditer(r"inner\s*\.\s*push\s*\(", flat):
            e = matching(flat, m2.end() - 1, "(", ")")
            writes.append(flat[m2.end():e].strip())
        items.append({"audit": "A5 StringRegion fields / inner writes", "found": [fields] + [f"inner.push({w})" for w in writes]})
        if fields is None or fields.rstrip(",").strip() != "inner: R":
            viol.append(f"{rel}: StringRegion's fields changed or became public: `{fields}`")
        if not writes:
            viol.append(f"{rel}: no write into the inner byte region found (parser out of date?)")
        for m2 in re.finditer(r"inner\s*\.\s*push\s*\(", text):
            head = text[:m2.start()]
            imp = [" ".join(m.group(0).split()) for m in re.finditer(r"(?m)^[ \t]*impl\b[^{;]*", head)][-1:]
            ok = False
            if imp:
                pm = re.search(r"Push<(.+?)> for StringRegion", imp[0])
                if pm and pm.group(1).replace("'a ", "").replace("'b ", "").replace(" ", "") in STRING_TYPES:
                    ok = True
            if not ok:
                viol.append(f"{rel}:{lineno(text, m2.start())}: inner.push outside an `impl Push<string type> for StringRegion` ({imp})")
        for m2 in re.finditer(r"\bpub(\([^)]*\))?\s+fn\s+(\w+)\s*(<[^>]*>)?\s*\(\s*&\s*mut\s+self", text):
            viol.append(f"{rel}:{lineno(text, m2.start())}: new inherent `pub fn {m2.group(2)}(&mut self, ..)` in the string region module: a possible write path that does not go through Push")
    out = []
    os.makedirs("/verif/replays", exist_ok=True)
    for msg in viol:
        h = hashlib.sha1(msg.encode()).hexdigest()[:16]
        path = f"/verif/replays/C04-source-{h}.json"
        with open(path, "w") as f:
            json.dump({"property": "C04", "profile": "source", "machine": "source-audit", "history": [msg], "message": msg}, f, indent=1)
        out.append({"machine": "source-audit", "history": [msg], "message": msg, "replay": path})
    info = {"kind": "finite syntactic audit of src/**/*.rs (not model checking)", "files": len(files), "sites": items, "violations": len(viol)}
    return out, info


if __name__ == "__main__":
    v, info = run("/repo/src")
    print(json.dumps(info, indent=1))
    for x in v:
        print("AUDIT VIOLATION:", x["message"])
