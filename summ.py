#!/usr/bin/env python3
import json,sys
d=json.load(open(sys.argv[1]))
for k in ['states','transitions','executions','refused','exhaustive','caps','wall_s','overflow_checks']: print(k,d[k])
ms=sorted(d['machines'], key=lambda m:-m['wall_s'])
for m in ms[:int(sys.argv[2]) if len(sys.argv)>2 else 8]: print(m)
seen=set()
for v in d['violations']:
    k=(v['machine'])
    if k in seen: continue
    seen.add(k)
    print('V', v['machine'],'\n    ', v['history'][-5:],'\n    =>', v['message'][:400])
print(len(d['violations']),'violations;', len(d['machinery_errors']),'machinery errors', d['machinery_errors'][:3])
