#!/usr/bin/env python3
"""Generates MANIFEST.json from the table below (keep it current; run after every change)."""
import json, subprocess

LIFE = "explicit-state BFS over operation histories of the real regions (state = history, replay on fresh objects, state matching on the complete Debug/serde rendering) + deviation-bounded long runs; both build profiles"
CLAIMED = {
    "C01": dict(technique=LIFE + "; every catalogue entry x large value alphabet x every admissible input form x contexts of <=1/2 earlier pushes",
        text="Every value of the large alphabet in every input form the type checker admits, pushed first / after one or two earlier pushes, on ~60 region compositions; the read item is checked through every accessor (len, is_empty, get, iter, into_iter, into_owned, Debug, UTF-8 validity).",
        note="A second family explores the small alphabet in every form to depth 4/5 (items first / middle / last in storage, after index-compression switches). Coded regions are explored in generation 0 here; their contract after merge_regions is C06/C07. Zero-sized-element entries run without state matching on a reduced alphabet.", ref="DESIGN.md §4 C01"),
    "C02": dict(technique=LIFE + "; ops push/reserve_items/reserve_regions/clear, all issued indices re-read after every step",
        text="All interleavings up to the depth bound plus every placement of <=1/2 deviations in long default runs; after every operation every index issued since the last clear is re-read against the value model.",
        note="Capacities are not part of the state fingerprint: histories that differ only in reserved capacity are merged; long runs (no state matching) cover growth/reallocation. Coded regions after merge_regions (shared partial Huffman byte, dictionary codes) are explored by the Huffman and dictionary machines, which are part of this check too.", ref="DESIGN.md §4 C02"),
    "C03": dict(technique="explicit-state BFS + deviation-bounded long runs on the real FlatStack<R, C> for every admissible index container, against a Vec of values; both build profiles",
        text="Ops copy (owned / by reference), extend (0/1/3 values), from_iter rebuild, clear, reserve, clone / clone_from replacement, merge_capacity, with_capacity; after every step len, is_empty, get(i) for all i, get(len) and get(len+1) must panic, iter / &stack iteration order and count, iterator cloned mid-way, size hints valid at every step (exact for vector indices), Debug equals the list of its own items, from_iter equals repeated copy. MirrorRegion<usize> stacks drive arbitrary usize sequences (the C05 alphabet) through the index containers via the public API.",
        note="Copy forms are limited to owned and by-reference (input forms are C20's subject).", ref="DESIGN.md §4 C03"),
    "C09": dict(technique="explicit-state BFS on two real regions a/b: history on a, then b = a.clone() or b.clone_from(&a) into a destination pre-filled by 4 unrelated histories, then diverging pushes/clears on both; plus FlatStack clone ops; both build profiles",
        text="Each copy is checked against its own value model after every step; right after the copy every alphabet value is pushed on scratch clones of both and must return the same index; complete renderings of clone and clone_from results must be identical.",
        note="CodecRegion<DictionaryCodec> is not Clone and is not part of this check. Coded Huffman containers are covered by the Huffman machine's clone() and clone_from (into a differently coded, pre-filled container) ops with codes up to 19 bits.", ref="DESIGN.md §4 C09"),
    "C11": dict(technique=LIFE + " with an exact reference storage model (per CollapseSequence site: last stored value; per storage: exact used bytes)",
        text="Collapsing regions at top level, in tuple fields, columns, slices and over consecutive pairs, with clear / merge_regions / clone / serde replacement ops: the returned index must equal the model's (previous index iff equal to the previously stored value at that site), and the used bytes of every storage reported by heap_size must equal the model exactly (so a collapsed push stores nothing and a non-equal push is never collapsed). NaN alphabets cover never-equal values.",
        note="-0.0 is excluded from collapse alphabets (it == 0.0, so collapsing it is sanctioned by the property). serde replacement is skipped for NaN alphabets (JSON limit).", ref="DESIGN.md §4 C11"),
    "C15": dict(technique=LIFE + " with a per-state oracle over the pool {items of this region, items of an independently built region, owned-borrowed items}; a Huffman cross-representation machine (raw / coded / coded under another code / owned)",
        text="All pairs: ==, partial_cmp and cmp must equal the owned values' equality / lexicographic order; all triples: reflexive, antisymmetric, transitive on the observed table.",
        note="Float-bearing compositions are not Ord and are excluded.", ref="DESIGN.md §4 C15"),
    "C17": dict(technique="exhaustive enumeration (no state matching, capacity is state) of start state x batch x pre-sizing route on the real vector-backed regions and FlatStacks, with a thread-local counting allocator; finite sweep of the logarithmic bound",
        text="Start states of <=2 pushes x every batch of <=2/3 items (incl. a 300-element item) x routes {every reserve_items form, reserve_regions, merge_regions([batch]), merge_regions([self, batch]), FlatStack::merge_capacity, reserve, with_capacity}: the capacities reported by heap_size must not change while exactly the announced contents are pushed, and for plain-data payloads the allocator is not called. Without pre-sizing: n = 2^6..2^10/2^14 pushes in 3 patterns cost at most storages x (ceil(log2 bytes) + 2) allocator calls.",
        note="Two measurement windows per case: the by-reference input form (the harness allocates nothing) and the owned canonical form (the harness-side cost, cloning the inputs, is measured separately and subtracted). Array reserve forms announce the two-element items only. The logarithmic part is a finite sweep of a parametric bound, as the property's own quantifier states.", ref="DESIGN.md §4 C17"),
    "C18": dict(technique=LIFE + " with an exact reference storage model: number, order and exact used bytes of every heap_size callback",
        text="After every push / clear / reserve_items / merge_regions: used <= capacity for every pair; the callbacks match the composition's storages one by one (every branch contributes) with exactly the bytes the model stores (payload after deduplication, one index entry per slice element / row cell, documented index compression); total used never decreases on push; after clear no capacity shrinks.",
        note="Exact equality is stronger than the property's lower bound; it holds on the current tree for every non-coded composition. Coded regions: only used <= capacity and monotonicity (Huffman's heap_size is an explicit todo!() stub and is excluded). FlatStacks: region storages by the same model followed by the index container's callbacks (exact for vector and dense indices); at clear no callback may disappear and no capacity shrink.", ref="DESIGN.md §4 C18"),
    "C04": dict(technique=LIFE + " on the string-bearing compositions with clear/clone/clone_from/serde/merge replacement ops; plus a finite syntactic audit of src/**/*.rs for the program-text half",
        text="Dynamic half: every &str reachable through index/get/iteration is validated with str::from_utf8 and compared byte-for-byte with the model string after every step. Program-text half: exhaustive enumeration of every unsafe token, every *unchecked* identifier, every impl Push<_> for StringRegion, blanket Push impls and writes to StringRegion.inner (an audit, not model checking; reported separately in the evidence).",
        note="The audit is syntactic (comment/string-stripped token scan); it trusts rustc's privacy rules for the private field. Dictionary-coded string regions are explored across merge_regions generations; a push refused after a merge ends the branch (refusal legitimacy is C07's subject).", ref="DESIGN.md §4 C04"),
    "C05": dict(
        technique="explicit-state BFS over push/extend/clear/reserve histories of the real index containers with state matching + deviation-bounded long runs, against a Vec<usize> model and a u128 reference stride acceptor; both build profiles",
        text="Every history up to the stated depth over a transition-covering absolute + state-relative alphabet, and every placement of <=2 deviations in long strided/saturated/u32-crossing runs, executed on the real Stride, IndexList, IndexOptimized and Vec<usize>; after every step len/is_empty/index(i)/iter/cloned iter are compared with the pushed sequence and Stride::push verdicts with the documented pattern.",
        note="Alphabet: 0, 1, 2, 3, u32::MAX, u32::MAX+1, 2^63, usize::MAX, usize::MAX/3, usize::MAX/2 plus state-relative values (next stride element, next multiple of the stride prefix, last, last+-1, 2*last) and four extend batches. Bounds as reported in the evidence; values outside the alphabet are not covered. The reference acceptor is 15 lines of u128 arithmetic. Thorough tier: the same machines are explored a second time with stateright and the unique-state counts must agree.",
        ref="DESIGN.md §4 C05"),
    "C06": dict(technique="explicit-state BFS per frequency profile on the real HuffmanContainer (build source through the API, merge_regions, then item pushes in 4 input forms / merge-from-self / clear), exact bounded decode of all issued items after every step; code lengths measured through the API and compared with a textbook optimum; both build profiles",
        text="Profiles: all count vectors {1,2,3}^n n<=4, Fibonacci-skewed (codes to 23 bits), 257/300/600 u16 symbols, empty, single symbol. Oracle: exact decode, contiguous bit ranges with hi-lo = sum of code lengths, >=1 bit per symbol, Kraft equality, total bits = optimum, out-of-statistics symbols refused by panic.",
        note="Statistics are spread over two overlapping source regions (the code must come from the summed counts); ops also include merge from [self, raw region], clear, clone(), clone_from into a differently coded container; 27-bit codes (Fibonacci 28) are reached. After a refused push the branch ends (the property does not require a usable container afterwards). Items need not be contiguous, only non-overlapping with hi-lo = sum of code lengths. Coverage table of (start bit, end bit, whole bytes) is in the evidence tags.", ref="DESIGN.md §4 C06"),
    "C07": dict(technique="explicit-state BFS on a pool of up to three real CodecRegion<DictionaryCodec> (push over a fixed + dictionary-relative alphabet, merge_regions over every subset, clear, switch), exhaustive first-byte sweep, scripted >1024-string seeds; both build profiles",
        text="Oracle: a push may be refused only if the string is not a dictionary entry and its first byte is a tag bound to an entry (read through the verif hook); every accepted push reads back exactly after every later operation on every live region; a string with more than half of the sources' pushes (free tag available) occupies exactly one byte.",
        note="A string that was accepted by a region this one was merged from must be accepted (its first byte was reserved). Scripted seed states (labelled so, explored exhaustively only for 1-3 further steps): >1024 distinct strings in three variants, three generations with ~300 strings pushing a coded-only item out of the dictionary, and a dictionary of > 64 KiB with mixed entry sizes.", ref="DESIGN.md §4 C07"),
    "C08": dict(technique=LIFE + "; a Default twin is created at every clear and driven in lock-step",
        text="For every (history before clear, history after clear) up to the bound: indices returned after the clear equal those of the fresh twin and both read the model values.",
        note="Capacities are deliberately not compared. FlatStack::clear is covered by the FlatStack machine, including stacks whose coded region was built by merge_capacity (after clear every copy must be accepted again).", ref="DESIGN.md §4 C08"),
    "C10": dict(technique=LIFE + "; twin never sees reserve_* calls and is Default after every merge_regions",
        text="reserve_items (every form, three batches), reserve_regions (three scripted sources), merge_regions over five source sets interleaved with pushes and clears; indices and reads compared with the never-reserving / default twin after every step.",
        note="Coded regions take part with merge_regions as well: after a merge only the reads are compared with the default twin and a refused push ends the branch (C06/C07 decide refusal legitimacy). FlatStack::reserve / with_capacity / merge_capacity are covered by the FlatStack machine.", ref="DESIGN.md §4 C10"),
    "C12": dict(technique=LIFE + " on consecutive-pair, columns and vector regions with a push counter oracle",
        text="The k-th push since creation/clear/merge_regions returns k, and index k reads the k-th value with exactly its own length and cells (rows 0..3 wide in every order), for each offset container, in every input form (incl. PushIter over another region's slice iterator).", note="Thorough tier: stateright cross-check of the explorer on a columns machine.", ref="DESIGN.md §4 C12"),
    "C13": dict(technique=LIFE + " with a per-state oracle probing every position 0..len+2 of every issued item in both representations",
        text="Every state reachable by <=3/4 pushes of items of length 0..3 on all slice/columns compositions; get(i) must equal the model for i < len and panic for i >= len, region-backed and borrowed-from-owned.",
        note="FlatStack::get(i) for i >= len is probed by the FlatStack machine for every index container (part of this check).", ref="DESIGN.md §4 C13"),
    "C14": dict(technique=LIFE + " with a per-state oracle for the IntoOwned laws; region-to-region copies through the read-item input forms",
        text="For every issued item x in every state: into_owned(x) = v, borrow_as(&o) reads like x, reborrow(x) reads like x, clone_onto(x, t) = v for every t of the alphabet (shorter, longer, other variant), from both representations; pushing x or borrow_as(&o) into another region is a regular input form (read_item / borrowed_item).", note="", ref="DESIGN.md §4 C14"),
    "C16": dict(technique=LIFE + "; twin := serde_json round trip at an arbitrary point, then lock-step; index containers through their own machine",
        text="Debug renderings of original and copy must be identical right after the round trip, re-serialisation byte-identical, and afterwards the same continuation yields the same indices, reads and renderings.",
        note="Non-finite floats are excluded (JSON cannot carry them: a limit of the text format, not of flatcontainer). Zero-sized-element regions are excluded (2^32 units would be serialised one by one).", ref="DESIGN.md §4 C16"),
    "C19": dict(
        technique="explicit-state BFS + deviation-bounded long runs on the real IndexOptimized/IndexList, byte cost from heap_size compared with the documented rule after every step",
        text="Same exploration as C05; oracle: used bytes equal 'stride-matching prefix free, then 4 B/entry until the first value > u32::MAX, 8 B/entry after', capacity 0 if never spilled.",
        note="The documented rule is transcribed from the README/type docs into list_cost()/stride_prefix_len(). Without an explicit reserve the allocation must stay within max(2 x high-water mark of used bytes, four entries). FlatStacks with the optimised container over dense-index regions (consecutive pairs, columns, plain vectors, zero-sized elements) must report (0, 0) for their own indices, in BFS and in runs of up to 1024/4096 items.",
        ref="DESIGN.md §4 C19"),
    "C20": dict(technique=LIFE + "; twin fed the canonical form of every value",
        text="Every value x every input form (incl. forms of children reached through nesting, read items from another region, owned-borrowed read items) mixed arbitrarily up to the depth bound: equal indices, equal per-storage used bytes, equal complete renderings.", note="", ref="DESIGN.md §4 C20"),
}


# additions of the later seeded-change rounds (3b, 4), appended to the notes
EXTRA = {
    "C01": "Coded compositions (columns over dictionary / Huffman columns, slices and strings over coded regions) are explored across merge_regions from one to three sources of different shapes: a value held by a source must be accepted by the merged region. Huffman machines run across two generations; at every merge the real code table is compared with the one for the symbols actually pushed.",
    "C04": "Histories of 2^20+3 items before clear / push / re-read are part of the quick tier (sampled re-reads: first and last 64 items, every 1009th).",
    "C05": "The iterators are also read through nth / skip / step_by, which must agree with stepping.",
    "C06": "Also: statistics whose total is 2^32+6 (a source region handed to merge_regions 65536 times); 65 600 (quick) / 140 000 and 70 000 mixed (thorough) distinct u32 symbols in a one-step build machine (acceptance, Kraft equality, optimality, read-back); a raw-start machine (clear first) with coded / raw / borrowed read items and the merge-vs-pushed-symbols oracle.",
    "C07": "Seeds 8 (summary compaction with more than 512 strings of weight >= 2 and lighter ones behind), 9 (two sources, a shared string below the 256 heaviest of either), 10 (a cleared region that then receives 1700 pushes). With exact statistics (fewer than 1024 pushes per source, fewer than 1024 summary entries in all) the strictly most frequent string must be stored in one byte. A failing push or merge while building a seed state is a violation.",
    "C08": "Histories of 2^20+3 items before the clear. Dictionary-coded regions: every cleared region has a fresh twin that receives the same pushes; merge_regions over the cleared regions and over their twins must learn the same dictionary (entries and bound tags).",
    "C09": "clone_from destinations include an empty region / stack returned by merge_regions / merge_capacity (which carries a code table for coded regions).",
    "C10": "Huffman machines across two generations (items arriving as read items of other coded containers) are part of this check.",
    "C11": "A dedicated machine covers CollapseSequence<HuffmanContainer<u8>>: equal neighbours must collapse whether they arrive borrowed, from a raw container, or from containers coded with the same or another table.",
    "C12": "Coded columns / slices after merge_regions from up to three sources of different widths are numbered 0, 1, 2, ... for covered rows.",
    "C13": "A second family pushes in every input form (read items of other regions, borrowed items, iterators) before probing.",
    "C14": "Huffman machines (codes of 1..10 bits, 257 u16 symbols) check clone_onto / into_owned on encoded items.",
    "C15": "Slices of 63..1025 elements differing in exactly one position, for every position; coded items of 29..32 symbols.",
    "C16": "ResultRegion over stride-compressed sides (a side that has only seen empty items uses no heap but is not Default).",
    "C17": "Also: 64 / 256 / 1024 separate three-item extend calls on a FlatStack without pre-sizing (O(log n) allocator calls per storage); SliceRegion over a plain Vec element region.",
    "C18": "Also: one 72 MiB item, and rows of 1030 / 5000 / 70 000 cells, followed by clear: no storage may disappear from heap_size and no capacity may shrink.",
    "C20": "Forms include Vec<T> with spare capacity. Huffman containers (raw start and coded start): slices, raw / coded / borrowed read items must leave the same statistics (compared at the next merge_regions with the symbols pushed).",
}

PENDING_REASON = "not claimed"

def main():
    props = [json.loads(l) for l in open("/verif/properties.jsonl")]
    hooks = subprocess.run(["git", "-C", "/repo", "log", "--format=%h %s"], capture_output=True, text=True).stdout.splitlines()
    hook_commits = [l.split()[0] for l in hooks if " verif hook:" in " " + l]
    checks, na = [], []
    for p in props:
        pid = p["id"]
        if pid in CLAIMED:
            c = CLAIMED[pid]
            checks.append({
                "property_id": pid,
                "quick_cmd": f"./check {pid} --tier quick",
                "thorough_cmd": f"./check {pid} --tier thorough",
                "evidence_file": f"/verif/evidence/{pid}.json",
                "replay_cmd_template": f"./check {pid} --replay {{path}}",
                "engine": "fcmc",
                "level_claimed": {"category": "model_checking", "text": c["text"], "design_ref": c["ref"]},
                "level_note": c["note"] + (" " + EXTRA[pid] if pid in EXTRA else ""),
                "technique": c["technique"],
            })
        else:
            na.append({"property_id": pid, "reason": PENDING_REASON})
    m = {
        "version": 1,
        "setup_cmd": "./check --build",
        "hooks": {
            "guard": "cargo feature 'verif' of flatcontainer (off by default)",
            "enable": "the harness depends on flatcontainer by path (/repo) with features [\"serde\", \"verif\"]; no RUSTFLAGS",
            "baseline_off_cmd": "cd /repo && cargo test --workspace --no-fail-fast --offline",
            "source_commits": hook_commits,
            "add_only": True,
        },
        "engines": [{
            "name": "fcmc",
            "path": "/verif/harness",
            "serves_properties": sorted(CLAIMED),
            "kind_free_text": "hand-rolled explicit-state explorer in Rust driving the real flatcontainer code: BFS by depth over operation histories with state matching on a complete rendering of the implementation state, plus deviation-bounded long runs; built in an overflow-checked and a wrapping profile; driver ./check",
        }],
        "checks": checks,
        "not_applicable": na,
        "notes": "Exit codes of ./check: 0 held, 1 violation (VIOLATION lines), 2 machinery failure. Known findings: /verif/known_findings.txt.",
    }
    json.dump(m, open("/verif/MANIFEST.json", "w"), indent=1)
    print("claimed", sorted(CLAIMED), "not_applicable", [n["property_id"] for n in na])

main()
