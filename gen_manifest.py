#!/usr/bin/env python3
"""Generates MANIFEST.json from the table below (keep it current; run after every change)."""
import json, subprocess

CLAIMED = {
    "C05": dict(
        technique="explicit-state BFS over push/extend/clear/reserve histories of the real index containers with state matching + deviation-bounded long runs, against a Vec<usize> model and a u128 reference stride acceptor; both build profiles",
        text="Every history up to the stated depth over a transition-covering absolute + state-relative alphabet, and every placement of <=2 deviations in long strided/saturated/u32-crossing runs, executed on the real Stride, IndexList, IndexOptimized and Vec<usize>; after every step len/is_empty/index(i)/iter/cloned iter are compared with the pushed sequence and Stride::push verdicts with the documented pattern.",
        note="Alphabet and bounds as reported in the evidence; values outside the alphabet are not covered. The reference acceptor is 15 lines of u128 arithmetic.",
        ref="DESIGN.md §4 C05"),
    "C19": dict(
        technique="explicit-state BFS + deviation-bounded long runs on the real IndexOptimized/IndexList, byte cost from heap_size compared with the documented rule after every step",
        text="Same exploration as C05; oracle: used bytes equal 'stride-matching prefix free, then 4 B/entry until the first value > u32::MAX, 8 B/entry after', capacity 0 if never spilled.",
        note="The documented rule is transcribed from the README/type docs into list_cost()/stride_prefix_len().",
        ref="DESIGN.md §4 C19"),
}

PENDING_REASON = "check under construction in this session (see DESIGN.md §9 for the order); not claimed until its machine exists"

def main():
    props = [json.loads(l) for l in open("/verif/properties.jsonl")]
    hooks = subprocess.run(["git", "-C", "/repo", "log", "--format=%h %s"], capture_output=True, text=True).stdout.splitlines()
    hook_commits = [l.split()[0] for l in hooks if " verif hook:" in " " + l]
    checks, na = [], []
    for p in props:
        pid = p["id"]
        if pid in CLAIMED:
            c = CLAIMED[pid]
            checks.append({
                "property_id": pid,
                "quick_cmd": f"./check {pid} --tier quick",
                "thorough_cmd": f"./check {pid} --tier thorough",
                "evidence_file": f"/verif/evidence/{pid}.json",
                "replay_cmd_template": f"./check {pid} --replay {{path}}",
                "engine": "fcmc",
                "level_claimed": {"category": "model_checking", "text": c["text"], "design_ref": c["ref"]},
                "level_note": c["note"],
                "technique": c["technique"],
            })
        else:
            na.append({"property_id": pid, "reason": PENDING_REASON})
    m = {
        "version": 1,
        "setup_cmd": "./check --build",
        "hooks": {
            "guard": "cargo feature 'verif' of flatcontainer (off by default)",
            "enable": "the harness depends on flatcontainer by path (/repo) with features [\"serde\", \"verif\"]; no RUSTFLAGS",
            "baseline_off_cmd": "cd /repo && cargo test --workspace --no-fail-fast --offline",
            "source_commits": hook_commits,
            "add_only": True,
        },
        "engines": [{
            "name": "fcmc",
            "path": "/verif/harness",
            "serves_properties": sorted(CLAIMED),
            "kind_free_text": "hand-rolled explicit-state explorer in Rust driving the real flatcontainer code: BFS by depth over operation histories with state matching on a complete rendering of the implementation state, plus deviation-bounded long runs; built in an overflow-checked and a wrapping profile; driver ./check",
        }],
        "checks": checks,
        "not_applicable": na,
        "notes": "Exit codes of ./check: 0 held, 1 violation (VIOLATION lines), 2 machinery failure. Known findings: /verif/known_findings.txt.",
    }
    json.dump(m, open("/verif/MANIFEST.json", "w"), indent=1)
    print("claimed", sorted(CLAIMED), "not_applicable", [n["property_id"] for n in na])

main()
