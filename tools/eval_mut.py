#!/usr/bin/env python3
"""Evaluate one seeded change (mutation) against the checks.

  tools/eval_mut.py <mutation dir with patch.diff + demo.rs> <property id> <name> [--all]

1. Confirms the mutation in a scratch worktree of /repo (outside /repo and /verif):
   existing test suite passes with it, demo fails with it, demo passes without it.
2. Applies it to /repo (git apply), runs ./check <property> --tier quick (and, with --all, every
   other property's quick check), and undoes it straight afterwards (git checkout -- .).
3. Stores /verif/seeded/<name>/{patch.diff, demo.rs, meta.json}.
"""
import json, os, shutil, subprocess, sys, time, fcntl

VERIF = os.path.dirname(os.path.dirname(os.path.abspath(__file__)))
ENV = dict(os.environ, CARGO_NET_OFFLINE="true", CARGO_TERM_COLOR="never")
ALL = [f"C{i:02d}" for i in range(1, 21)]


def sh(cmd, cwd=None, timeout=3600):
    p = subprocess.run(cmd, cwd=cwd, shell=isinstance(cmd, str), env=ENV, stdout=subprocess.PIPE, stderr=subprocess.STDOUT, text=True, timeout=timeout)
    return p.returncode, p.stdout


def confirm(mdir, name):
    wt = f"/tmp/mv/{name}"
    shutil.rmtree(wt, ignore_errors=True)
    sh(f"git -C /repo worktree prune")
    rc, out = sh(f"git -C /repo worktree add -q --detach {wt} HEAD")
    if rc != 0:
        return {"ok": False, "why": "cannot create scratch worktree: " + out[-300:]}
    res = {}
    try:
        rc, out = sh(f"git apply {mdir}/patch.diff", cwd=wt)
        if rc != 0:
            return {"ok": False, "why": "patch does not apply: " + out[-300:]}
        rc, out = sh("cargo test --workspace --offline 2>&1 | tail -40", cwd=wt)
        res["suite_with_mutation"] = "pass" if ("test result: FAILED" not in out and "error" not in out.lower().split("warning")[0] and "test result: ok" in out) else "FAIL"
        res["suite_tail"] = out[-600:]
        shutil.copy(f"{mdir}/demo.rs", f"{wt}/tests/demo.rs")
        dep = os.path.join(mdir, "cargo_dev_dep.txt")
        if os.path.exists(dep):
            # the demo needs an extra dev-dependency (e.g. serde_json); not part of the mutation itself
            toml = open(f"{wt}/Cargo.toml").read()
            line = open(dep).read().strip().splitlines()[-1]
            toml = toml.replace("[dev-dependencies]\n", "[dev-dependencies]\n" + line + "\n")
            open(f"{wt}/Cargo.toml", "w").write(toml)
            shutil.copy("/repo/Cargo.lock", f"{wt}/Cargo.lock") if os.path.exists("/repo/Cargo.lock") else None
        rc, out = sh("cargo test --offline --test demo 2>&1 | tail -30", cwd=wt)
        res["demo_with_mutation"] = "fails" if ("FAILED" in out or "panicked" in out or "error: test failed" in out) else "passes"
        res["demo_with_tail"] = out[-500:]
        release = ""
        if res["demo_with_mutation"] == "passes":
            # some changes only manifest with overflow checks / debug assertions off
            rc, out = sh("cargo test --offline --release --test demo 2>&1 | tail -30", cwd=wt)
            if "FAILED" in out or "panicked" in out or "error: test failed" in out:
                res["demo_with_mutation"] = "fails"
                res["demo_profile"] = "release only"
                res["demo_with_tail"] = out[-500:]
                release = "--release "
        sh("git checkout -- src", cwd=wt)  # Cargo.toml keeps the demo's dev-dependency
        rc, out = sh(f"cargo test --offline {release}--test demo 2>&1 | tail -30", cwd=wt)
        res["demo_without_mutation"] = "passes" if ("test result: ok" in out and "FAILED" not in out) else "fails"
        res["demo_without_tail"] = out[-300:]
        res["ok"] = res["suite_with_mutation"] == "pass" and res["demo_with_mutation"] == "fails" and res["demo_without_mutation"] == "passes"
    finally:
        sh(f"git -C /repo worktree remove --force {wt}")
        shutil.rmtree(wt, ignore_errors=True)
    return res


def run_checks(mdir, props):
    results = {}
    lock = open("/tmp/repo.lock", "w")
    fcntl.flock(lock, fcntl.LOCK_EX)
    try:
        rc, out = sh("git -C /repo status --porcelain")
        if out.strip():
            return {"error": "/repo is not clean: " + out[:200]}
        rc, out = sh(f"git -C /repo apply {mdir}/patch.diff")
        if rc != 0:
            return {"error": "git apply on /repo failed: " + out[-300:]}
        try:
            for p in props:
                t0 = time.time()
                rc, out = sh(f"./check {p} --tier quick", cwd=VERIF, timeout=3000)
                lines = [l for l in out.splitlines() if l.startswith("VIOLATION") or l.startswith("MACHINERY") or l.startswith("KNOWN")]
                first = next((l for l in out.splitlines() if l.strip().startswith("=>")), "")
                results[p] = {"exit": rc, "violation_lines": len([l for l in lines if l.startswith("VIOLATION")]), "first": first.strip()[:300],
                              "machinery": [l for l in lines if l.startswith("MACHINERY")][:2], "wall_s": round(time.time() - t0, 1)}
        finally:
            sh("git -C /repo checkout -- .")
    finally:
        fcntl.flock(lock, fcntl.LOCK_UN)
    return results


def main():
    mdir, prop, name = sys.argv[1], sys.argv[2], sys.argv[3]
    do_all = "--all" in sys.argv
    out_dir = os.path.join(VERIF, "seeded", name)
    if "--recheck" in sys.argv:
        # re-run only the own property's quick check for an already confirmed change (mdir = seeded/<name>)
        meta = json.load(open(os.path.join(out_dir, "meta.json")))
        if not meta.get("kept"):
            return
        r = run_checks(out_dir, [prop])
        if "error" in r:
            print(f"{name}: {r}")
            return
        meta.setdefault("check_results", {})[prop] = r[prop]
        meta["caught_by_own_property"] = r[prop]["exit"] == 1
        meta["caught_by"] = sorted(p for p, v in meta["check_results"].items() if isinstance(v, dict) and v.get("exit") == 1)
        meta["rechecked_with_final_checks"] = True
        json.dump(meta, open(os.path.join(out_dir, "meta.json"), "w"), indent=1)
        print(f"{name}: recheck: own check {'CATCHES' if meta['caught_by_own_property'] else 'MISSES'} it ({r[prop]['wall_s']}s)")
        return
    c = confirm(mdir, name)
    meta = {"breaks_property": prop, "name": name, "confirmation": c, "source": "independent sub-agent given only the property text and a scratch worktree"}
    readme = os.path.join(mdir, "README.md")
    if os.path.exists(readme):
        meta["needs_to_manifest"] = open(readme).read()[:2500]
    if not c.get("ok"):
        meta["kept"] = False
        os.makedirs(out_dir, exist_ok=True)
        json.dump(meta, open(os.path.join(out_dir, "meta.json"), "w"), indent=1)
        print(f"{name}: NOT CONFIRMED: {c}")
        return
    props = [prop] + ([p for p in ALL if p != prop] if do_all else [])
    r = run_checks(mdir, props)
    meta["kept"] = True
    meta["ran"] = [f"git -C /repo apply patch.diff; ./check {p} --tier quick; git -C /repo checkout -- ." for p in props[:1]] + (["... and every other property's quick check"] if do_all else [])
    meta["check_results"] = r
    meta["caught_by_own_property"] = r.get(prop, {}).get("exit") == 1
    meta["caught_by"] = sorted(p for p, v in r.items() if isinstance(v, dict) and v.get("exit") == 1)
    os.makedirs(out_dir, exist_ok=True)
    shutil.copy(f"{mdir}/patch.diff", out_dir)
    shutil.copy(f"{mdir}/demo.rs", out_dir)
    json.dump(meta, open(os.path.join(out_dir, "meta.json"), "w"), indent=1)
    print(f"{name}: confirmed; own check {'CATCHES' if meta['caught_by_own_property'] else 'MISSES'} it; caught by {meta['caught_by']}")


if __name__ == "__main__":
    main()
