#!/bin/bash
# Evaluate every finished sub-agent mutation under /tmp/wt/Cxx/mutations/mK that has not been evaluated yet.
cd /verif
while true; do
  did=0
  for d in /tmp/wt/C*/mutations/m*; do
    [ -f "$d/patch.diff" ] && [ -f "$d/demo.rs" ] && [ -f "$d/README.md" ] || continue
    prop=$(echo "$d" | sed -E 's#/tmp/wt/(C[0-9]+)/mutations/(m[0-9]+)#\1#')
    k=$(basename "$d")
    name="$prop-$k"
    [ -f "seeded/$name/meta.json" ] && continue
    python3 tools/eval_mut.py "$d" "$prop" "$name" --all >> /tmp/evalq.log 2>&1
    did=1
  done
  [ -f /tmp/evalq.stop ] && break
  [ $did = 0 ] && sleep 30
done
