#!/bin/bash
# Final evaluation: (1) every not yet evaluated sub-agent change with every property's quick check,
# (2) every earlier kept change again with its own property's quick check (final machinery).
cd "$(dirname "$0")/.."
for d in /tmp/wt/C*/mutations/m*; do
  [ -f "$d/patch.diff" ] && [ -f "$d/demo.rs" ] && [ -f "$d/README.md" ] || continue
  prop=$(echo "$d" | sed -E 's#/tmp/wt/(C[0-9]+)/mutations/(m[0-9]+)#\1#'); k=$(basename "$d"); name="$prop-$k"
  [ -f "seeded/$name/meta.json" ] && continue
  python3 tools/eval_mut.py "$d" "$prop" "$name" --all
  touch "seeded/$name/.new"
done
for d in seeded/*/; do
  name=$(basename "$d"); [ -f "$d/.new" ] && continue
  prop=$(python3 -c "import json;print(json.load(open('$d/meta.json'))['breaks_property'])")
  python3 tools/eval_mut.py "$d" "$prop" "$name" --recheck
done
echo EVAL-FINAL-DONE
