#!/usr/bin/env python3
"""Renders /verif/seeded/*/meta.json as a markdown table (for DESIGN.md §12.5)."""
import json, glob, os, re
rows = []
for f in sorted(glob.glob("/verif/seeded/*/meta.json")):
    m = json.load(open(f))
    name = m["name"]
    if not m.get("kept"):
        rows.append((name, m["breaks_property"], "not confirmed", "", ""))
        continue
    readme = m.get("needs_to_manifest", "")
    first = ""
    for line in readme.splitlines():
        line = line.strip(" #*-")
        if len(line) > 25 and not line.lower().startswith(("mutation", "m1", "m2", "m3")):
            first = line
            break
    first = re.sub(r"\s+", " ", first)[:150]
    own = "yes" if m.get("caught_by_own_property") else "NO"
    rows.append((name, m["breaks_property"], own, " ".join(m.get("caught_by", [])), first))
print("| seeded change | breaks | own check catches | caught by (quick tier) | what it is |")
print("|---|---|---|---|---|")
for r in rows:
    print("| " + " | ".join(r) + " |")
kept = [r for r in rows if r[2] != "not confirmed"]
print(f"\n{len(kept)} confirmed seeded changes; own property's quick check catches {sum(1 for r in kept if r[2]=='yes')}; "
      f"caught by at least one check: {sum(1 for r in kept if r[3])}.")
