#!/bin/bash
# Development helper: run one property against a CLEAN snapshot of /repo (/tmp/cleanrepo2) from a copy of the
# harness sources, so that work can continue while /repo itself carries a seeded change. Never used by MANIFEST.
set -e
prop=$1; tier=${2:-quick}; prof=${3:-checked}
[ -d /tmp/cleanrepo2 ] || git -C /repo worktree add -q --detach /tmp/cleanrepo2 HEAD   # scratch copy; remove with: git -C /repo worktree remove --force /tmp/cleanrepo2
mkdir -p /tmp/devharness
rsync -a --delete --exclude target /verif/harness/ /tmp/devharness/
sed -i 's#path = "/repo"#path = "/tmp/cleanrepo2"#' /tmp/devharness/Cargo.toml
cd /tmp/devharness
CARGO_NET_OFFLINE=true cargo build --offline --profile $prof 2>&1 | grep -E "^error|warning: unused" -A12 | head -50
./target/$prof/fcmc run $prop --tier $tier --out /tmp/dev-$prop.json --replay-dir /tmp/devreplays || true
python3 /verif/summ.py /tmp/dev-$prop.json ${4:-3}
