//! The region life-cycle machine: push (any value, any form), clear, reserve_items,
//! reserve_regions, merge_regions, replace-by-clone, replace-by-serde — with an optional twin
//! region whose policy depends on the property (C01, C02, C04, C08, C10, C12, C13, C14, C16, C20).

use crate::engine::{guard, Machine, OpId, Step};
use crate::spec::*;
use flatcontainer::{IntoOwned, Region};

#[derive(Clone, Copy, PartialEq, Eq, Debug)]
pub enum Twin {
    None,
    /// C08: a `Default` twin is (re)created at every clear; later ops go to both.
    FreshAtClear,
    /// C10: twin never sees a reserve call; merge replaces it by `Default`.
    NeverReserve,
    /// C16: twin is the deserialised copy; afterwards both run in lock-step.
    SerdeLockstep,
    /// C20: twin is always fed the canonical form.
    CanonForm,
}

#[derive(Clone, Debug)]
pub struct LifeCfg {
    pub prop: &'static str,
    pub twin: Twin,
    pub n_values: usize,
    /// how many forms to use (usize::MAX = all)
    pub n_forms: usize,
    pub use_large: bool,
    pub clear: bool,
    pub reserve_items: bool,
    pub reserve_regions: bool,
    pub merge: bool,
    pub clone_replace: bool,
    pub serde_replace: bool,
    pub serde_twin: bool,
    pub o_dense: bool,
    pub o_positions: bool,
    pub o_owned_laws: bool,
    /// exact reference storage model: predicted indices and exact used bytes per storage (C11, C18)
    pub o_model: bool,
    /// with o_model: total used bytes must equal the model's total (C11: a collapsed push stores nothing)
    pub exact_total: bool,
    /// C15: ==, partial_cmp, cmp between all pairs/triples of read items
    pub o_order: bool,
    /// deviation script: horizon value pattern
    pub script: u8,
    /// start every history from a region that already holds this many copies of the second value
    /// (item-count thresholds such as > 65535 items)
    pub prefill: usize,
    /// offer merge_regions on coded regions too; a push refused after such a merge is within the
    /// region's acceptance contract (C06/C07) and ends the branch
    pub coded_merges: bool,
    /// drop values containing non-finite floats (JSON cannot carry them: a limit of the text
    /// format C16 asks for, not of flatcontainer)
    pub finite_only: bool,
}

impl LifeCfg {
    pub fn new(prop: &'static str) -> Self {
        LifeCfg {
            prop,
            twin: Twin::None,
            n_values: 4,
            n_forms: usize::MAX,
            use_large: false,
            clear: false,
            reserve_items: false,
            reserve_regions: false,
            merge: false,
            clone_replace: false,
            serde_replace: false,
            serde_twin: false,
            o_dense: false,
            o_positions: false,
            o_owned_laws: false,
            o_model: false,
            exact_total: false,
            o_order: false,
            script: 0,
            prefill: 0,
            coded_merges: false,
            finite_only: false,
        }
    }
}

#[derive(Clone, Debug)]
enum OpDef {
    Push { val: usize, form: usize },
    Clear,
    ReserveItems { form: usize, batch: u8 },
    ReserveRegions { src: u8 },
    Merge { srcs: u8 },
    CloneReplace,
    CloneFromReplace,
    SerdeReplace,
    SerdeTwin,
}

struct Side<S: Spec> {
    r: S::R,
    issued: Vec<(Idx<S>, usize)>,
}

pub struct LifeMachine<S: Spec> {
    e: Entry<S>,
    cfg: LifeCfg,
    values: Vec<S::V>,
    ops: Vec<OpDef>,
    a: Side<S>,
    twin: Option<Side<S>>,
    count: usize,
    m: S::M,
    /// the region is a coded region built by merge_regions and not cleared since
    coded_merged: bool,
    /// values held by the regions the current (coded, merged) region was built from: their symbols / strings are
    /// covered by its statistics, so pushing them must be accepted
    covered: Vec<usize>,
    /// model index of the previous push since the last clear / merge
    last_midx: Option<MIdx>,
    tags: Vec<String>,
}

fn batches<V: Clone>(values: &[V], which: u8) -> Vec<V> {
    match which {
        0 => vec![],
        1 => values.iter().take(2).cloned().collect(),
        _ => {
            let mut v: Vec<V> = values.to_vec();
            v.extend(values.iter().rev().cloned());
            v
        }
    }
}

impl<S: Spec> LifeMachine<S> {
    pub fn new(e: Entry<S>, cfg: LifeCfg) -> Self {
        let mut values: Vec<S::V> = e.values.iter().take(cfg.n_values).cloned().collect();
        if cfg.use_large {
            values = e.values.clone();
            values.extend(e.large.iter().cloned());
        }
        if cfg.finite_only {
            values.retain(|v| {
                let d = format!("{:?}", v);
                !d.contains("NaN") && !d.contains("inf")
            });
        }
        let nf = e.forms.len().min(cfg.n_forms);
        let mut ops = Vec::new();
        for val in 0..values.len() {
            for form in 0..nf {
                ops.push(OpDef::Push { val, form });
            }
        }
        if cfg.clear {
            ops.push(OpDef::Clear);
        }
        if cfg.reserve_items {
            for form in 0..e.reserve_forms.len() {
                for batch in 0..3u8 {
                    ops.push(OpDef::ReserveItems { form, batch });
                }
            }
        }
        if cfg.reserve_regions && e.has_reserve_regions {
            for src in 0..3u8 {
                ops.push(OpDef::ReserveRegions { src });
            }
        }
        if cfg.merge && (e.coded == Coded::No || cfg.coded_merges) {
            for srcs in 0..5u8 {
                ops.push(OpDef::Merge { srcs });
            }
            if e.coded != Coded::No {
                // three sources of different shapes, the region under test in the middle
                ops.push(OpDef::Merge { srcs: 5 });
            }
        }
        if cfg.clone_replace && e.clone_fn.is_some() {
            ops.push(OpDef::CloneReplace);
            ops.push(OpDef::CloneFromReplace);
        }
        // zero-sized elements would be serialised one by one (2^32 units): no serde ops there
        if cfg.serde_replace && e.ser.is_some() && !e.zst {
            ops.push(OpDef::SerdeReplace);
        }
        if cfg.serde_twin && e.ser.is_some() && !e.zst {
            ops.push(OpDef::SerdeTwin);
        }
        let twin = Self::initial_twin(&cfg);
        LifeMachine {
            e,
            cfg,
            values,
            ops,
            a: Side { r: Default::default(), issued: vec![] },
            twin,
            count: 0,
            m: Default::default(),
            coded_merged: false,
            covered: vec![],
            last_midx: None,
            tags: vec![],
        }
    }

    fn sibling_model(&self, which: u8) -> S::M {
        let mut m = S::M::default();
        match which {
            0 => {}
            3 => {
                for v in self.values.iter().skip(self.values.len().saturating_sub(2)) {
                    S::m_push(&mut m, v);
                }
            }
            _ => {
                for v in self.values.iter().take(2) {
                    S::m_push(&mut m, v);
                }
            }
        }
        m
    }

    /// C18 / C11: heap_size against the reference storage model.
    ///
    /// C18 (`exact_total == false`) is decided at the level the property states: used <= capacity,
    /// total used >= payload bytes + per-element index entries of the model, never decreasing on push,
    /// after clear nothing but structure is accounted and no capacity shrinks.
    /// C11 (`exact_total == true`) additionally needs "a collapsed push stores nothing new": the total of
    /// the used bytes must equal the model's total (independent of callback order).
    fn check_model(&self, what: &str, before: &Option<Vec<(usize, usize)>>, was_clear: bool, was_push: bool) -> Result<(), String> {
        if !(self.cfg.o_model && self.e.has_heap) {
            return Ok(());
        }
        let Some(h) = self.heap(&self.a.r) else { return Ok(()) };
        for (i, (u, c)) in h.iter().enumerate() {
            if u > c {
                return Err(format!("after {what}: heap_size pair #{i} reports used {u} > capacity {c} ({h:?})"));
            }
        }
        let total: usize = h.iter().map(|x| x.0).sum();
        if let Some(b) = before {
            if was_push && total < b.iter().map(|x| x.0).sum::<usize>() {
                return Err(format!("after {what}: total used bytes decreased on push: {b:?} -> {h:?}"));
            }
            if was_clear {
                if h.len() < b.len() {
                    return Err(format!("after clear(): heap_size makes {} callbacks instead of {} ({b:?} -> {h:?})", h.len(), b.len()));
                }
                if b.len() == h.len() {
                    for (i, (x, y)) in b.iter().zip(&h).enumerate() {
                        if y.1 < x.1 {
                            return Err(format!("after clear(): reported capacity #{i} shrank from {} to {} ({b:?} -> {h:?})", x.1, y.1));
                        }
                    }
                }
            }
        }
        if S::MODELLED {
            let mut layout = Vec::new();
            S::m_layout(&self.m, &mut layout);
            let model_total: usize = layout.iter().map(|s| s.used).sum();
            let lower: usize = layout.iter().filter(|s| matches!(s.kind, Kind::Payload | Kind::Entries)).map(|s| s.used).sum();
            if total < lower {
                return Err(format!(
                    "after {what}: heap_size accounts for {total} used bytes, but {lower} bytes of payload and per-element index entries are stored (reported {h:?}; model {:?})",
                    layout.iter().map(|s| (s.kind, s.used)).collect::<Vec<_>>()
                ));
            }
            if was_clear && total > model_total {
                return Err(format!(
                    "after clear(): {total} used bytes are still accounted, an emptied region of this shape accounts for {model_total} (reported {h:?})"
                ));
            }
            if self.cfg.exact_total && total != model_total {
                return Err(format!(
                    "after {what}: {total} used bytes in total, the reference model (payload after deduplication + index entries) gives {model_total} (reported {h:?}; model {:?})",
                    layout.iter().map(|s| (s.kind, s.used)).collect::<Vec<_>>()
                ));
            }
        }
        Ok(())
    }

    fn initial_twin(cfg: &LifeCfg) -> Option<Side<S>> {
        match cfg.twin {
            Twin::NeverReserve | Twin::CanonForm => Some(Side { r: Default::default(), issued: vec![] }),
            _ => None,
        }
    }

    /// scripted sibling regions used as sources for reserve_regions / merge_regions
    fn sibling(&self, which: u8) -> S::R {
        let mut r: S::R = Default::default();
        match which {
            0 => {}
            1 => {
                for v in self.values.iter().take(2) {
                    let _ = S::canon_push(&mut r, v);
                }
            }
            3 => {
                for v in self.values.iter().skip(self.values.len().saturating_sub(2)) {
                    let _ = S::canon_push(&mut r, v);
                }
            }
            _ => {
                // same contents as the region under test
                for (_, val) in &self.a.issued {
                    let _ = S::canon_push(&mut r, &self.values[*val]);
                }
            }
        }
        r
    }

    fn check_side(values: &[S::V], side: &Side<S>, who: &str) -> Result<(), String> {
        let n = side.issued.len();
        for (k, (idx, val)) in side.issued.iter().enumerate() {
            // histories of more than 2^17 items: the first and last 64 items and every 1009th in between
            if n > (1 << 17) && k >= 64 && k + 64 < n && k % 1009 != 0 {
                continue;
            }
            let v = &values[*val];
            let r = &side.r;
            match guard(|| S::check(r.index(*idx), v)) {
                Ok(Ok(())) => {}
                Ok(Err(e)) => {
                    return Err(format!(
                        "{who}: item #{k} (index {}, pushed {}) no longer reads back: {e}",
                        idx_str(idx),
                        S::show(v)
                    ))
                }
                Err(p) => {
                    return Err(format!(
                        "{who}: reading item #{k} (index {}, pushed {}) panicked: {p}",
                        idx_str(idx),
                        S::show(v)
                    ))
                }
            }
        }
        Ok(())
    }

    fn render(&self, r: &S::R) -> Option<String> {
        self.e.render.map(|f| f(r))
    }

    fn heap(&self, r: &S::R) -> Option<Vec<(usize, usize)>> {
        if !self.e.has_heap {
            return None;
        }
        let mut v = Vec::new();
        r.heap_size(|u, c| v.push((u, c)));
        Some(v)
    }

    fn compare_twin(&self, what: &str) -> Result<(), String> {
        let Some(t) = &self.twin else { return Ok(()) };
        match self.cfg.twin {
            Twin::SerdeLockstep | Twin::CanonForm => {
                if let (Some(a), Some(b)) = (self.render(&self.a.r), self.render(&t.r)) {
                    if a != b {
                        return Err(format!("after {what}: state of the region and of its twin differ:\n   region: {}\n   twin:   {}", clip(&a), clip(&b)));
                    }
                }
                if self.cfg.twin == Twin::CanonForm {
                    if let (Some(a), Some(b)) = (self.heap(&self.a.r), self.heap(&t.r)) {
                        let ua: Vec<usize> = a.iter().map(|x| x.0).collect();
                        let ub: Vec<usize> = b.iter().map(|x| x.0).collect();
                        if ua != ub {
                            return Err(format!("after {what}: used bytes per storage differ between forms: {ua:?} vs canonical {ub:?}"));
                        }
                    }
                }
            }
            _ => {}
        }
        Ok(())
    }

    fn do_push(&mut self, val: usize, form: usize) -> Step {
        let v = self.values[val].clone();
        let fname = self.e.forms[form].name;
        let f = self.e.forms[form].f;
        let r = &mut self.a.r;
        let idx = match guard(|| f(r, &v)) {
            Ok(i) => i,
            Err(p) if self.e.zst && crate::engine::exhaustion(&p) => {
                // more than usize::MAX zero-sized elements: resource exhaustion, not in the model
                return Step::Refused(p);
            }
            Err(p) if self.coded_merged && !self.covered.contains(&val) => {
                self.tags.push("refused:coded-after-merge".into());
                return Step::Refused(p);
            }
            Err(p) if self.coded_merged => {
                return Step::Violation(format!(
                    "push({}) as {fname} was refused by a region built by merge_regions although one of its source regions holds the same value (covered by the statistics): {p}",
                    S::show(&v)
                ));
            }
            Err(p) => return Step::Violation(format!("push({}) as {fname} panicked: {p}", S::show(&v))),
        };
        if self.cfg.o_dense && self.e.dense {
            let want = self.count.to_string();
            if idx_str(&idx) != want {
                return Step::Violation(format!(
                    "push #{} since creation/clear/merge returned index {}, expected {want}",
                    self.count,
                    idx_str(&idx)
                ));
            }
        }
        self.count += 1;
        if self.cfg.o_model && S::MODELLED {
            let want = S::m_push(&mut self.m, &v);
            // dense indices are promised (C12); pair indices are opaque and only compared for sameness
            if let MIdx::Dense(k) = want {
                if self.e.dense && k.to_string() != idx_str(&idx) {
                    return Step::Violation(format!(
                        "push({}) as {fname} returned index {}, the reference model gives {k}",
                        S::show(&v),
                        idx_str(&idx)
                    ));
                }
            }
            if want != MIdx::Opaque {
                if let (Some(pm), Some((pi, _))) = (self.last_midx, self.a.issued.last()) {
                    let (model_same, real_same) = (pm == want, idx_str(pi) == idx_str(&idx));
                    if model_same != real_same {
                        return Step::Violation(format!(
                            "push({}) as {fname} returned index {} ({} the previous index {}); the item {} the previously stored one",
                            S::show(&v),
                            idx_str(&idx),
                            if real_same { "the same as" } else { "different from" },
                            idx_str(pi),
                            if model_same { "equals" } else { "differs from" }
                        ));
                    }
                }
                self.last_midx = Some(want);
            }
        }
        if let Some((prev, _)) = self.a.issued.last() {
            if idx_str(prev) == idx_str(&idx) {
                self.tags.push("push:same-index-as-previous".into());
            }
        }
        self.tags.push(format!("form:{fname}"));
        self.a.issued.push((idx, val));
        if let Some(t) = &mut self.twin {
            let tf = if self.cfg.twin == Twin::CanonForm { self.e.forms[0].f } else { f };
            let tr = &mut t.r;
            let tidx = match guard(|| tf(tr, &v)) {
                Ok(i) => i,
                Err(p) => return Step::Violation(format!("push({}) on the twin region panicked: {p}", S::show(&v))),
            };
            // a coded region built by merge_regions stores items differently from a default one:
            // only the reads are compared (C10: "within their acceptance contract")
            if idx_str(&tidx) != idx_str(&idx) && !self.coded_merged {
                return Step::Violation(format!(
                    "push({}) as {fname} returned index {} but {} on the twin ({})",
                    S::show(&v),
                    idx_str(&idx),
                    idx_str(&tidx),
                    twin_desc(self.cfg.twin)
                ));
            }
            t.issued.push((tidx, val));
        }
        Step::Ok
    }

    fn after(&mut self, what: &str) -> Step {
        if let Err(e) = Self::check_side(&self.values, &self.a, "region") {
            return Step::Violation(format!("after {what}: {e}"));
        }
        if let Some(t) = &self.twin {
            if let Err(e) = Self::check_side(&self.values, t, "twin") {
                return Step::Violation(format!("after {what}: {e} ({})", twin_desc(self.cfg.twin)));
            }
        }
        if let Err(e) = self.compare_twin(what) {
            return Step::Violation(e);
        }
        if let Some(d) = self.render(&self.a.r) {
            if d.len() < 4000 {
                let mut t = String::from("repr:");
                for (key, tag) in [
                    ("Saturated(", "saturated"),
                    ("Striding(", "striding"),
                    ("strided: Zero", "zero"),
                    ("smol: [", "smol"),
                    ("chonk: [", "chonk"),
                    ("last_index: Some", "dedup-memory"),
                ] {
                    if d.contains(key) && !d.contains(&format!("{key}]")) {
                        t.push_str(tag);
                        t.push('+');
                    }
                }
                self.tags.push(t);
            }
        }
        if self.twin.is_some() {
            self.tags.push(format!("twin-compared:{}", self.a.issued.len().min(4)));
        }
        Step::Ok
    }
}

fn clip(s: &str) -> String {
    if s.chars().count() > 400 {
        let h: String = s.chars().take(400).collect();
        format!("{h}…")
    } else {
        s.to_string()
    }
}

fn twin_desc(t: Twin) -> &'static str {
    match t {
        Twin::None => "",
        Twin::FreshAtClear => "twin = Default::default() created at the last clear",
        Twin::NeverReserve => "twin never saw a reserve call / is Default::default() since the last merge",
        Twin::SerdeLockstep => "twin = deserialised copy driven in lock-step",
        Twin::CanonForm => "twin is fed the canonical form of the same values",
    }
}

impl<S: Spec> Machine for LifeMachine<S> {
    fn name(&self) -> String {
        if self.cfg.prefill > 0 {
            return format!("life/{}/{}/prefilled{}", self.cfg.prop, S::name(), self.cfg.prefill);
        }
        format!("life/{}/{}/s{}", self.cfg.prop, S::name(), self.cfg.script)
    }
    fn reset(&mut self) {
        self.a = Side { r: Default::default(), issued: vec![] };
        self.twin = Self::initial_twin(&self.cfg);
        self.count = 0;
        self.m = Default::default();
        self.coded_merged = false;
        self.covered.clear();
        self.last_midx = None;
        self.tags.clear();
        if self.cfg.prefill > 0 {
            let v = self.values[1 % self.values.len()].clone();
            for _ in 0..self.cfg.prefill {
                let idx = S::canon_push(&mut self.a.r, &v);
                self.a.issued.push((idx, 1 % self.values.len()));
                if let Some(t) = &mut self.twin {
                    let ti = S::canon_push(&mut t.r, &v);
                    t.issued.push((ti, 1 % self.values.len()));
                }
                if self.cfg.o_model && S::MODELLED {
                    self.last_midx = Some(S::m_push(&mut self.m, &v));
                }
            }
            self.count = self.cfg.prefill;
        }
    }
    fn enabled(&self) -> Vec<OpId> {
        (0..self.ops.len() as u32).collect()
    }
    fn describe(&self, op: OpId) -> String {
        match &self.ops[op as usize] {
            OpDef::Push { val, form } => format!("push({}) as {}", S::show(&self.values[*val]), self.e.forms[*form].name),
            OpDef::Clear => "clear()".into(),
            OpDef::ReserveItems { form, batch } => {
                let b = batches(&self.values, *batch);
                format!("{} with {} items", self.e.reserve_forms[*form].name, b.len())
            }
            OpDef::ReserveRegions { src } => format!(
                "reserve_regions([{}])",
                ["an empty region", "a region holding the first two values", "a region with the same contents"][*src as usize]
            ),
            OpDef::Merge { srcs } => format!(
                "replace by merge_regions([{}])",
                ["", "self", "sibling holding two values", "self, sibling", "empty region", "sibling holding the first two values, self, sibling holding the last two values"][*srcs as usize]
            ),
            OpDef::CloneReplace => "replace by clone()".into(),
            OpDef::CloneFromReplace => "replace by clone_from() into a pre-filled region".into(),
            OpDef::SerdeReplace => "replace by serde_json round trip".into(),
            OpDef::SerdeTwin => "twin := serde_json round trip of the region".into(),
        }
    }
    fn step(&mut self, op: OpId) -> Step {
        let def = self.ops[op as usize].clone();
        let what = self.describe(op);
        let before = if self.cfg.o_model { self.heap(&self.a.r) } else { None };
        let (was_clear, was_push) = (matches!(def, OpDef::Clear), matches!(def, OpDef::Push { .. }));
        match def {
            OpDef::Push { val, form } => {
                match self.do_push(val, form) {
                    Step::Ok => {}
                    other => return other,
                }
            }
            OpDef::Clear => {
                let r = &mut self.a.r;
                if let Err(p) = guard(|| r.clear()) {
                    return Step::Violation(format!("clear() panicked: {p}"));
                }
                self.a.issued.clear();
                self.count = 0;
                self.coded_merged = false;
                self.covered.clear();
                self.last_midx = None;
                S::m_clear(&mut self.m);
                match self.cfg.twin {
                    Twin::FreshAtClear => self.twin = Some(Side { r: Default::default(), issued: vec![] }),
                    _ => {
                        if let Some(t) = &mut self.twin {
                            t.r.clear();
                            t.issued.clear();
                        }
                    }
                }
            }
            OpDef::ReserveItems { form, batch } => {
                let b = batches(&self.values, batch);
                let f = self.e.reserve_forms[form].f;
                let r = &mut self.a.r;
                if let Err(p) = guard(|| f(r, &b)) {
                    if self.e.zst && crate::engine::exhaustion(&p) {
                        return Step::Refused(p);
                    }
                    return Step::Violation(format!("{what} panicked: {p}"));
                }
                if !matches!(self.cfg.twin, Twin::NeverReserve) {
                    if let Some(t) = &mut self.twin {
                        f(&mut t.r, &b);
                    }
                }
            }
            OpDef::ReserveRegions { src } => {
                let sib = self.sibling(src);
                let r = &mut self.a.r;
                if let Err(p) = guard(|| r.reserve_regions(std::iter::once(&sib))) {
                    if self.e.zst && crate::engine::exhaustion(&p) {
                        return Step::Refused(p);
                    }
                    return Step::Violation(format!("{what} panicked: {p}"));
                }
                if !matches!(self.cfg.twin, Twin::NeverReserve) {
                    if let Some(t) = &mut self.twin {
                        t.r.reserve_regions(std::iter::once(&sib));
                    }
                }
            }
            OpDef::Merge { srcs } => {
                let sib = self.sibling(1);
                let empty = self.sibling(0);
                let sib_last = self.sibling(3);
                let nv = self.values.len();
                let mut covered: Vec<usize> = match srcs {
                    1 => self.a.issued.iter().map(|x| x.1).collect(),
                    2 => (0..nv.min(2)).collect(),
                    3 => self.a.issued.iter().map(|x| x.1).chain(0..nv.min(2)).collect(),
                    5 => self.a.issued.iter().map(|x| x.1).chain(0..nv.min(2)).chain(nv.saturating_sub(2)..nv).collect(),
                    _ => vec![],
                };
                covered.sort();
                covered.dedup();
                let a = &self.a.r;
                let merged = guard(|| match srcs {
                    0 => S::R::merge_regions(std::iter::empty()),
                    1 => S::R::merge_regions(std::iter::once(a)),
                    2 => S::R::merge_regions(std::iter::once(&sib)),
                    3 => S::R::merge_regions([a, &sib].into_iter()),
                    5 => S::R::merge_regions([&sib, a, &sib_last].into_iter()),
                    _ => S::R::merge_regions(std::iter::once(&empty)),
                });
                self.covered = covered;
                {
                    let sm = self.sibling_model(1);
                    let em = self.sibling_model(0);
                    let lm = self.sibling_model(3);
                    let srcs_m: Vec<&S::M> = match srcs {
                        0 => vec![],
                        1 => vec![&self.m],
                        2 => vec![&sm],
                        3 => vec![&self.m, &sm],
                        5 => vec![&sm, &self.m, &lm],
                        _ => vec![&em],
                    };
                    let nm = S::m_merged(&srcs_m);
                    self.m = nm;
                }
                self.coded_merged = self.e.coded != Coded::No;
                self.last_midx = None;
                match merged {
                    Ok(m) => self.a = Side { r: m, issued: vec![] },
                    Err(p) if self.e.zst && crate::engine::exhaustion(&p) => return Step::Refused(p),
                    Err(p) => return Step::Violation(format!("{what} panicked: {p}")),
                }
                self.count = 0;
                match self.cfg.twin {
                    Twin::NeverReserve | Twin::CanonForm => self.twin = Some(Side { r: Default::default(), issued: vec![] }),
                    Twin::SerdeLockstep => {
                        if let Some(t) = &mut self.twin {
                            let tr = &t.r;
                            let m = match srcs {
                                0 => S::R::merge_regions(std::iter::empty()),
                                1 => S::R::merge_regions(std::iter::once(tr)),
                                2 => S::R::merge_regions(std::iter::once(&sib)),
                                3 => S::R::merge_regions([tr, &sib].into_iter()),
                                5 => S::R::merge_regions([&sib, tr, &sib_last].into_iter()),
                                _ => S::R::merge_regions(std::iter::once(&empty)),
                            };
                            *t = Side { r: m, issued: vec![] };
                        }
                    }
                    _ => self.twin = None,
                }
            }
            OpDef::CloneReplace => {
                let f = self.e.clone_fn.unwrap();
                let a = &self.a.r;
                match guard(|| f(a)) {
                    Ok(c) => self.a.r = c,
                    Err(p) => return Step::Violation(format!("clone() panicked: {p}")),
                }
            }
            OpDef::CloneFromReplace => {
                let f = self.e.clone_from_fn.unwrap();
                let mut dst = self.sibling(1);
                let a = &self.a.r;
                if let Err(p) = guard(|| f(&mut dst, a)) {
                    return Step::Violation(format!("clone_from() panicked: {p}"));
                }
                self.a.r = dst;
            }
            OpDef::SerdeReplace | OpDef::SerdeTwin => {
                let ser = self.e.ser.unwrap();
                let de = self.e.de.unwrap();
                let a = &self.a.r;
                let copy = guard(|| -> Result<(String, S::R), String> {
                    let s = ser(a)?;
                    let c = de(&s)?;
                    Ok((s, c))
                });
                let (s, c) = match copy {
                    Ok(Ok(x)) => x,
                    Ok(Err(e)) => return Step::Violation(format!("serde round trip failed: {e}")),
                    Err(p) => return Step::Violation(format!("serde round trip panicked: {p}")),
                };
                if let (Some(x), Some(y)) = (self.render(&self.a.r), self.render(&c)) {
                    if x != y {
                        return Step::Violation(format!("deserialised copy differs from the original:\n   original: {}\n   copy:     {}", clip(&x), clip(&y)));
                    }
                }
                match ser(&c) {
                    Ok(s2) if s2 == s => {}
                    Ok(s2) => return Step::Violation(format!("re-serialisation is not byte-identical: {} vs {}", clip(&s), clip(&s2))),
                    Err(e) => return Step::Violation(format!("re-serialisation failed: {e}")),
                }
                if matches!(def, OpDef::SerdeReplace) {
                    self.a.r = c;
                } else {
                    self.twin = Some(Side { r: c, issued: self.a.issued.clone() });
                }
            }
        }
        if let Err(e) = self.check_model(&what, &before, was_clear, was_push) {
            return Step::Violation(e);
        }
        self.after(&what)
    }
    fn fingerprint(&self) -> Option<String> {
        if self.cfg.prefill > (1 << 17) {
            // rendering a million items per state costs more than exploring the few paths without state matching
            return None;
        }
        let ra = self.render(&self.a.r)?;
        let mut s = String::new();
        s.push_str(&ra);
        s.push('|');
        for (i, v) in &self.a.issued {
            s.push_str(&idx_str(i));
            s.push(':');
            s.push_str(&v.to_string());
            s.push(',');
        }
        s.push_str(&format!("|{}|", self.count));
        if let Some(t) = &self.twin {
            s.push_str("T:");
            s.push_str(&self.render(&t.r)?);
            for (i, v) in &t.issued {
                s.push_str(&idx_str(i));
                s.push(':');
                s.push_str(&v.to_string());
                s.push(',');
            }
        }
        Some(s)
    }
    fn check_state(&mut self) -> Result<(), String> {
        if self.cfg.o_positions {
            let mut probes = 0;
            for (idx, val) in &self.a.issued {
                let v = &self.values[*val];
                probes += S::probe_positions(self.a.r.index(*idx), v, 3)?;
                probes += S::probe_positions(<RI<'_, S> as IntoOwned>::borrow_as(v), v, 3).map_err(|e| format!("(item borrowed from an owned value) {e}"))?;
            }
            if probes > 0 {
                self.tags.push("probed".into());
            }
        }
        if self.cfg.o_owned_laws {
            self.owned_laws()?;
        }
        if self.cfg.o_order {
            self.order_laws()?;
        }
        Ok(())
    }
    fn drain_tags(&mut self) -> Vec<String> {
        std::mem::take(&mut self.tags)
    }
    fn script_default(&self, pos: usize) -> Option<OpId> {
        // default script: round-robin over the values in the canonical form
        let nf = self.e.forms.len().min(self.cfg.n_forms);
        let nv = self.values.len();
        let val = match self.cfg.script {
            0 => pos % nv,
            1 => (pos / 3) % nv, // runs of three equal values (dedup hits)
            _ => 1 % nv,
        };
        Some((val * nf) as u32)
    }
    fn script_deviations(&self, pos: usize) -> Vec<OpId> {
        let d = self.script_default(pos);
        let nf = self.e.forms.len().min(self.cfg.n_forms);
        (0..self.ops.len() as u32)
            .filter(|o| Some(*o) != d)
            .filter(|o| match &self.ops[*o as usize] {
                // in long runs, deviate with another value in the canonical form or the last form only
                OpDef::Push { form, .. } => *form == 0 || *form + 1 == nf,
                OpDef::ReserveItems { batch, .. } => *batch == 2,
                _ => true,
            })
            .collect()
    }
}

impl<S: Spec> LifeMachine<S> {
    /// C15: equality and ordering of read items coincide with those of the owned values, for items
    /// of this region, of an independently built region, and owned-borrowed items.
    fn order_laws(&mut self) -> Result<(), String> {
        use std::cmp::Ordering;
        let (Some(cmp), Some(vcmp)) = (self.e.cmp, self.e.vcmp) else { return Ok(()) };
        // an independently built second region: a dummy item first, then the same values reversed
        let mut b: S::R = Default::default();
        let _ = S::canon_push(&mut b, &self.values[self.values.len() - 1]);
        let mut b_issued = Vec::new();
        for (_, val) in self.a.issued.iter().rev() {
            b_issued.push((S::canon_push(&mut b, &self.values[*val]), *val));
        }
        let ra = &self.a.r;
        let rb = &b;
        let mut pool: Vec<(RI<'_, S>, usize, &str)> = Vec::new();
        for (idx, val) in &self.a.issued {
            pool.push((ra.index(*idx), *val, "this region"));
        }
        for (idx, val) in &b_issued {
            pool.push((rb.index(*idx), *val, "another region"));
        }
        for (i, v) in self.values.iter().enumerate() {
            pool.push((<RI<'_, S> as IntoOwned>::borrow_as(v), i, "borrowed from owned"));
        }
        let n = pool.len();
        let mut table = vec![Ordering::Equal; n * n];
        for i in 0..n {
            for j in 0..n {
                let (x, y) = (&pool[i], &pool[j]);
                let want = vcmp(&self.values[x.1], &self.values[y.1]);
                let got = guard(|| cmp(&x.0, &y.0)).map_err(|p| format!("comparing read items panicked: {p}"))?;
                let ctx = || {
                    format!(
                        "x = {} ({}), y = {} ({})",
                        S::show(&self.values[x.1]),
                        x.2,
                        S::show(&self.values[y.1]),
                        y.2
                    )
                };
                if got.0 != (want == Ordering::Equal) {
                    return Err(format!("x == y is {} but the owned values compare {:?}; {}", got.0, want, ctx()));
                }
                if got.1 != Some(want) {
                    return Err(format!("x.partial_cmp(y) = {:?}, owned values compare {:?}; {}", got.1, want, ctx()));
                }
                if got.2 != want {
                    return Err(format!("x.cmp(y) = {:?}, owned values compare {:?}; {}", got.2, want, ctx()));
                }
                table[i * n + j] = got.2;
            }
        }
        // total order laws on what was observed
        for i in 0..n {
            if table[i * n + i] != Ordering::Equal {
                return Err("cmp is not reflexive".into());
            }
            for j in 0..n {
                if table[i * n + j] != table[j * n + i].reverse() {
                    return Err("cmp is not antisymmetric".into());
                }
                for k in 0..n {
                    if table[i * n + j] != Ordering::Greater && table[j * n + k] != Ordering::Greater && table[i * n + k] == Ordering::Greater {
                        return Err("cmp is not transitive".into());
                    }
                }
            }
        }
        self.tags.push(format!("ordered-pool:{}", n.min(12)));
        Ok(())
    }

    /// C14: IntoOwned laws for every issued item (region-to-region copies are checked by the
    /// read-item input forms of C01/C20).
    fn owned_laws(&mut self) -> Result<(), String> {
        for (idx, val) in &self.a.issued {
            let v = &self.values[*val];
            let r = &self.a.r;
            let owned = guard(|| r.index(*idx).into_owned()).map_err(|p| format!("into_owned panicked: {p}"))?;
            if !owned.same(v) {
                return Err(format!("into_owned(x) = {}, pushed {}", show(&owned), S::show(v)));
            }
            // borrow_as(&into_owned(x)) describes the same value
            guard(|| S::check(<RI<'_, S> as IntoOwned>::borrow_as(&owned), v))
                .map_err(|p| format!("borrow_as panicked: {p}"))?
                .map_err(|e| format!("borrow_as(&into_owned(x)) does not read like x: {e}"))?;
            // reborrow(x) is x
            guard(|| S::check(S::R::reborrow(r.index(*idx)), v))
                .map_err(|p| format!("reborrow panicked: {p}"))?
                .map_err(|e| format!("reborrow(x) does not read like x: {e}"))?;
            // clone_onto(x, t) leaves t == into_owned(x), whatever t held
            for (ti, t0) in self.e.values.iter().chain(self.e.large.iter().take(2)).enumerate() {
                let mut t = t0.clone();
                guard(|| r.index(*idx).clone_onto(&mut t)).map_err(|p| format!("clone_onto panicked: {p}"))?;
                if !t.same(v) {
                    return Err(format!(
                        "clone_onto(x, t): x = {}, t held {} (target #{ti}), afterwards t = {}",
                        S::show(v),
                        S::show(t0),
                        show(&t)
                    ));
                }
                let mut t = t0.clone();
                guard(|| <RI<'_, S> as IntoOwned>::borrow_as(&owned).clone_onto(&mut t))
                    .map_err(|p| format!("clone_onto (from the owned-borrowed representation) panicked: {p}"))?;
                if !t.same(v) {
                    return Err(format!(
                        "clone_onto(borrow_as(&o), t): o = {}, t held {}, afterwards t = {}",
                        S::show(v),
                        S::show(t0),
                        show(&t)
                    ));
                }
            }
            self.tags.push("laws".into());
        }
        Ok(())
    }
}
