//! C03 (and the FlatStack parts of C10, C13, C16, C19): FlatStack<R, C> against a Vec of values.

use crate::engine::{guard, Machine, OpId, Step};
use crate::spec::*;
use flatcontainer::{FlatStack, Push};
use std::fmt::Debug;

pub type FS<S, C> = FlatStack<<S as Spec>::R, C>;

pub struct StackCaps<S: Spec, C> {
    pub cname: &'static str,
    pub copy_owned: Option<fn(&mut FS<S, C>, &S::V)>,
    pub copy_ref: Option<fn(&mut FS<S, C>, &S::V)>,
    pub extend: Option<fn(&mut FS<S, C>, Vec<S::V>)>,
    pub from_iter: Option<fn(Vec<S::V>) -> FS<S, C>>,
    /// (Debug of the stack, Debug of the list of its own get(i) items)
    pub debug: Option<fn(&FS<S, C>) -> (String, String)>,
    /// FlatStack::reserve_items with references to the values
    pub reserve_items: Option<fn(&mut FS<S, C>, &[S::V])>,
    pub clone: Option<fn(&FS<S, C>) -> FS<S, C>>,
    pub clone_from: Option<fn(&mut FS<S, C>, &FS<S, C>)>,
    pub ser: Option<fn(&FS<S, C>) -> Result<String, String>>,
    pub de: Option<fn(&str) -> Result<FS<S, C>, String>>,
    /// number of heap_size callbacks the index container contributes (they come last)
    pub index_callbacks: usize,
    /// true if the index container is the stride-optimised one over a dense-index region
    pub expect_free_indices: bool,
    pub exact_size: bool,
}

impl<S: Spec, C> Clone for StackCaps<S, C> {
    fn clone(&self) -> Self {
        StackCaps {
            cname: self.cname,
            copy_owned: self.copy_owned,
            copy_ref: self.copy_ref,
            extend: self.extend,
            from_iter: self.from_iter,
            debug: self.debug,
            reserve_items: self.reserve_items,
            clone: self.clone,
            clone_from: self.clone_from,
            ser: self.ser,
            de: self.de,
            index_callbacks: self.index_callbacks,
            expect_free_indices: self.expect_free_indices,
            exact_size: self.exact_size,
        }
    }
}

impl<S: Spec, C: flatcontainer::impls::index::IndexContainer<Idx<S>> + 'static> StackCaps<S, C> {
    pub fn new(cname: &'static str, index_callbacks: usize) -> Self {
        StackCaps {
            cname,
            copy_owned: None,
            copy_ref: None,
            extend: None,
            from_iter: None,
            debug: None,
            reserve_items: None,
            clone: None,
            clone_from: None,
            ser: None,
            de: None,
            index_callbacks,
            expect_free_indices: false,
            exact_size: false,
        }
    }
    pub fn owned(mut self) -> Self
    where
        S::R: Push<S::V>,
    {
        self.copy_owned = Some(|s, v| s.copy(v.clone()));
        self.extend = Some(|s, vs| s.extend(vs));
        self.from_iter = Some(|vs| vs.into_iter().collect());
        self
    }
    pub fn by_ref(mut self) -> Self
    where
        for<'a> S::R: Push<&'a S::V>,
    {
        self.copy_ref = Some(|s, v| s.copy(v));
        self
    }
    pub fn reserving(mut self) -> Self
    where
        for<'a> S::R: flatcontainer::ReserveItems<&'a S::V>,
    {
        self.reserve_items = Some(|s, batch| s.reserve_items(batch.iter()));
        self
    }
    pub fn debug(mut self) -> Self
    where
        for<'a> RI<'a, S>: Debug,
    {
        self.debug = Some(|s| {
            let items: Vec<String> = (0..s.len()).map(|i| format!("{:?}", s.get(i))).collect();
            (format!("{:?}", s), format!("[{}]", items.join(", ")))
        });
        self
    }
    pub fn cloneable(mut self) -> Self
    where
        FS<S, C>: Clone,
    {
        self.clone = Some(|s| s.clone());
        self.clone_from = Some(|d, s| d.clone_from(s));
        self
    }
    pub fn serde(mut self) -> Self
    where
        FS<S, C>: serde::Serialize + for<'a> serde::Deserialize<'a>,
    {
        self.ser = Some(|s| serde_json::to_string(s).map_err(|e| e.to_string()));
        self.de = Some(|t| serde_json::from_str(t).map_err(|e| e.to_string()));
        self
    }
    pub fn free_indices(mut self) -> Self {
        self.expect_free_indices = true;
        self
    }
}

#[derive(Clone, Copy, PartialEq, Eq, Debug)]
pub enum StackOracle {
    /// C03
    Sequence,
    /// C19: index share of heap_size is (0, 0)
    Space,
    /// C16: serde round trip op
    Serde,
    /// C10: reserve / with_capacity / merge_capacity
    Presize,
}

#[derive(Clone, Debug)]
enum OpDef {
    CopyOwned(usize),
    CopyRef(usize),
    Extend(u8),
    FromIter,
    Clear,
    Reserve(usize),
    ReserveItems,
    ReserveRegions(u8),
    CloneReplace,
    CloneFromReplace,
    /// dst := merge_capacity([stack holding the first two values]); dst.clone_from(self); continue with dst
    CloneFromMerged,
    MergeCapacity(u8),
    WithCapacity(usize),
    Serde,
}

pub struct StackMachine<S: Spec, C: flatcontainer::impls::index::IndexContainer<Idx<S>> + IdxModel<Idx<S>> + 'static> {
    e: Entry<S>,
    caps: StackCaps<S, C>,
    oracle: StackOracle,
    values: Vec<S::V>,
    ops: Vec<OpDef>,
    st: FS<S, C>,
    model: Vec<usize>,
    /// reference storage model of the region and the model indices of the copies
    m: S::M,
    midx: Vec<MIdx>,
    /// a merged coded region only accepts what its statistics cover (C06/C07) until it is cleared
    coded_merged: bool,
    script: u8,
    tags: Vec<String>,
}

impl<S: Spec, C: flatcontainer::impls::index::IndexContainer<Idx<S>> + IdxModel<Idx<S>> + 'static> StackMachine<S, C> {
    pub fn new(e: Entry<S>, caps: StackCaps<S, C>, oracle: StackOracle, n_values: usize, script: u8) -> Self {
        let mut values: Vec<S::V> = e.values.iter().take(n_values).cloned().collect();
        if oracle == StackOracle::Serde {
            values.retain(|v| {
                let d = format!("{:?}", v);
                !d.contains("NaN") && !d.contains("inf")
            });
        }
        let mut ops = Vec::new();
        for v in 0..values.len() {
            if caps.copy_owned.is_some() {
                ops.push(OpDef::CopyOwned(v));
            }
            if caps.copy_ref.is_some() {
                ops.push(OpDef::CopyRef(v));
            }
        }
        if caps.extend.is_some() {
            for b in 0..3 {
                ops.push(OpDef::Extend(b));
            }
            ops.push(OpDef::FromIter);
        }
        ops.push(OpDef::Clear);
        ops.push(OpDef::Reserve(0));
        ops.push(OpDef::Reserve(5));
        if caps.reserve_items.is_some() {
            ops.push(OpDef::ReserveItems);
        }
        if e.has_reserve_regions {
            ops.push(OpDef::ReserveRegions(0));
            ops.push(OpDef::ReserveRegions(1));
        }
        if caps.clone.is_some() && oracle == StackOracle::Sequence {
            ops.push(OpDef::CloneReplace);
            ops.push(OpDef::CloneFromReplace);
            ops.push(OpDef::CloneFromMerged);
        }
        if oracle == StackOracle::Presize || oracle == StackOracle::Sequence {
            ops.push(OpDef::MergeCapacity(0));
            ops.push(OpDef::MergeCapacity(1));
            ops.push(OpDef::WithCapacity(3));
        }
        if oracle == StackOracle::Serde && caps.ser.is_some() {
            ops.push(OpDef::Serde);
        }
        StackMachine { e, caps, oracle, values, ops, st: Default::default(), model: vec![], m: Default::default(), midx: vec![], coded_merged: false, script, tags: vec![] }
    }

    fn render(&self, s: &FS<S, C>) -> Option<String> {
        if self.e.zst {
            return None;
        }
        self.caps.ser.and_then(|f| f(s).ok())
    }

    fn batch(&self, b: u8) -> Vec<usize> {
        match b {
            0 => vec![],
            1 => vec![0],
            _ => vec![0, 1 % self.values.len(), 0],
        }
    }

    fn check(&mut self) -> Result<(), String> {
        let n = self.model.len();
        let s = &self.st;
        let len = guard(|| s.len()).map_err(|p| format!("len() panicked: {p}"))?;
        if len != n {
            return Err(format!("len() = {len}, {n} values were copied"));
        }
        if s.is_empty() != (n == 0) {
            return Err(format!("is_empty() = {} with {n} values", s.is_empty()));
        }
        for (i, val) in self.model.iter().enumerate() {
            let v = &self.values[*val];
            match guard(|| S::check(s.get(i), v)) {
                Ok(Ok(())) => {}
                Ok(Err(e)) => return Err(format!("get({i}) (copied {}): {e}", S::show(v))),
                Err(p) => return Err(format!("get({i}) panicked: {p}")),
            }
        }
        for pos in [n, n + 1, usize::MAX, usize::MAX - 1] {
            if guard(|| {
                let _ = s.get(pos);
            })
            .is_ok()
            {
                return Err(format!("get({pos}) on a stack of {n} values returned an item instead of panicking"));
            }
        }
        // iteration: order, count, size hints, cloned iterator
        let walk = |mut it: flatcontainer::Iter<'_, S::R, <C as flatcontainer::impls::index::IndexContainer<Idx<S>>>::Iter<'_>>, from: usize, what: &str| -> Result<(), String> {
            let mut k = from;
            loop {
                let (lo, hi) = it.size_hint();
                let rem = n - k.min(n);
                if lo > rem || hi.map(|h| h < rem).unwrap_or(false) {
                    return Err(format!("{what}: size_hint {:?} with {rem} items remaining", (lo, hi)));
                }
                if self.caps.exact_size && (lo != rem || hi != Some(rem)) {
                    return Err(format!("{what}: size_hint {:?} is not exact ({rem} remaining)", (lo, hi)));
                }
                match it.next() {
                    Some(item) => {
                        if k >= n {
                            return Err(format!("{what}: yields more than {n} items"));
                        }
                        S::check(item, &self.values[self.model[k]]).map_err(|e| format!("{what}: position {k}: {e}"))?;
                        k += 1;
                    }
                    None => break,
                }
            }
            if k != n {
                return Err(format!("{what}: yields {k} items, {n} were copied"));
            }
            Ok(())
        };
        guard(|| walk(s.iter(), 0, "iter()")).map_err(|p| format!("iter() panicked: {p}"))??;
        guard(|| walk((&*s).into_iter(), 0, "(&stack).into_iter()")).map_err(|p| format!("into_iter() panicked: {p}"))??;
        guard(|| {
            let mut it = s.iter();
            let half = n / 2;
            for _ in 0..half {
                let _ = it.next();
            }
            walk(it.clone(), half, "iterator cloned mid-way")
        })
        .map_err(|p| format!("cloned iterator panicked: {p}"))??;
        guard(|| crate::engine::iter_laws(&s.iter(), n, &|item, j| S::check(item, &self.values[self.model[j]])))
            .map_err(|p| format!("iterator method panicked: {p}"))?
            .map_err(|e| format!("iter(): {e}"))?;
        if let Some(d) = self.caps.debug {
            if !self.e.zst {
                let (a, b) = guard(|| d(s)).map_err(|p| format!("Debug panicked: {p}"))?;
                if a != b {
                    return Err(format!("Debug output {a} differs from the list of its own items {b}"));
                }
            }
        }
        if self.e.has_heap {
            let mut h = Vec::new();
            s.heap_size(|u, c| h.push((u, c)));
            for (u, c) in &h {
                if u > c {
                    return Err(format!("heap_size reports used {u} > capacity {c}"));
                }
            }
            if S::MODELLED {
                // the region's storages (reference model) followed by the index container's
                let mut want = Vec::new();
                S::m_layout(&self.m, &mut want);
                let region_slots = want.len();
                let dense_or_vec = self.caps.cname == "Vec<Index>" || self.midx.iter().all(|i| matches!(i, MIdx::Dense(_)));
                if dense_or_vec {
                    C::slots(&self.midx, &mut want);
                }
                let total: usize = h.iter().map(|x| x.0).sum();
                let lower: usize = want.iter().filter(|s| matches!(s.kind, Kind::Payload | Kind::Entries)).map(|s| s.used).sum();
                if total < lower {
                    return Err(format!(
                        "FlatStack::heap_size accounts for {total} used bytes, but {lower} bytes of payload and index entries are stored ({n} items; reported {h:?})"
                    ));
                }
                // the index container of a FlatStack must contribute (C18), after the region's storages
                if h.len() < region_slots.min(h.len()) + self.caps.index_callbacks || h.len() < self.caps.index_callbacks {
                    return Err(format!("FlatStack::heap_size makes {} callbacks; the index container alone has {} (reported {h:?})", h.len(), self.caps.index_callbacks));
                }
                if self.caps.cname == "Vec<Index>" {
                    let own = h[h.len() - 1];
                    let want_own = n * std::mem::size_of::<Idx<S>>();
                    if own.0 < want_own {
                        return Err(format!("the FlatStack's index vector holds {n} indices ({want_own} bytes) but contributes {own:?} to heap_size (reported {h:?})"));
                    }
                }
            }
            if self.caps.expect_free_indices {
                let own = &h[h.len() - self.caps.index_callbacks..];
                if own.iter().any(|p| *p != (0, 0)) {
                    return Err(format!(
                        "FlatStack with the optimised index container over a dense-index region spends {:?} on its own indices ({n} items)",
                        own
                    ));
                }
                self.tags.push(format!("free-indices:{}", n.min(5)));
            }
        }
        Ok(())
    }
}

impl<S: Spec, C: flatcontainer::impls::index::IndexContainer<Idx<S>> + IdxModel<Idx<S>> + 'static> Machine for StackMachine<S, C> {
    fn name(&self) -> String {
        format!("stack/{:?}/FlatStack<{}, {}>/s{}", self.oracle, S::name(), self.caps.cname, self.script)
    }
    fn reset(&mut self) {
        self.st = Default::default();
        self.model.clear();
        self.m = Default::default();
        self.midx.clear();
        self.coded_merged = false;
        self.tags.clear();
    }
    fn enabled(&self) -> Vec<OpId> {
        (0..self.ops.len() as u32).collect()
    }
    fn describe(&self, op: OpId) -> String {
        match &self.ops[op as usize] {
            OpDef::CopyOwned(v) => format!("copy({})", S::show(&self.values[*v])),
            OpDef::CopyRef(v) => format!("copy(&{})", S::show(&self.values[*v])),
            OpDef::Extend(b) => format!("extend({} values)", self.batch(*b).len()),
            OpDef::FromIter => "replace by from_iter(current contents)".into(),
            OpDef::Clear => "clear()".into(),
            OpDef::Reserve(n) => format!("reserve({n})"),
            OpDef::ReserveItems => "reserve_items(the first two values)".into(),
            OpDef::ReserveRegions(k) => format!("reserve_regions([{}])", if *k == 0 { "an empty region" } else { "a region holding the values in reverse" }),
            OpDef::CloneReplace => "replace by clone()".into(),
            OpDef::CloneFromReplace => "replace by clone_from() into a pre-filled stack".into(),
            OpDef::CloneFromMerged => "replace by clone_from() into an empty stack returned by merge_capacity([stack holding the first two values])".into(),
            OpDef::MergeCapacity(k) => format!("replace by merge_capacity([{}])", if *k == 0 { "" } else { "self" }),
            OpDef::WithCapacity(n) => format!("replace by with_capacity({n})"),
            OpDef::Serde => "replace by serde_json round trip".into(),
        }
    }
    fn step(&mut self, op: OpId) -> Step {
        let what = self.describe(op);
        let zst = self.e.zst;
        let coded_merged = self.coded_merged;
        let refuse = |p: &String| (zst && crate::engine::exhaustion(p)) || coded_merged;
        let caps_before: Vec<usize> = if self.e.has_heap {
            let mut v = Vec::new();
            self.st.heap_size(|_, c| v.push(c));
            v
        } else {
            vec![]
        };
        let is_clear = matches!(self.ops[op as usize], OpDef::Clear);
        match self.ops[op as usize].clone() {
            OpDef::CopyOwned(v) | OpDef::CopyRef(v) => {
                let f = if matches!(self.ops[op as usize], OpDef::CopyOwned(_)) { self.caps.copy_owned.unwrap() } else { self.caps.copy_ref.unwrap() };
                let val = self.values[v].clone();
                let st = &mut self.st;
                match guard(|| f(st, &val)) {
                    Ok(()) => {
                        self.model.push(v);
                        let i = S::m_push(&mut self.m, &val);
                        self.midx.push(i);
                    }
                    Err(p) if refuse(&p) => return Step::Refused(p),
                    Err(p) => return Step::Violation(format!("{what} panicked: {p}")),
                }
            }
            OpDef::Extend(b) => {
                let ids = self.batch(b);
                let vals: Vec<S::V> = ids.iter().map(|i| self.values[*i].clone()).collect();
                let f = self.caps.extend.unwrap();
                let st = &mut self.st;
                let vals2 = vals.clone();
                match guard(|| f(st, vals)) {
                    Ok(()) => {
                        self.model.extend(ids);
                        for v in &vals2 {
                            let i = S::m_push(&mut self.m, v);
                            self.midx.push(i);
                        }
                    }
                    Err(p) if refuse(&p) => return Step::Refused(p),
                    Err(p) => return Step::Violation(format!("{what} panicked: {p}")),
                }
            }
            OpDef::FromIter => {
                let vals: Vec<S::V> = self.model.iter().map(|i| self.values[*i].clone()).collect();
                let f = self.caps.from_iter.unwrap();
                let co = self.caps.copy_owned.unwrap();
                let built = match guard(|| f(vals.clone())) {
                    Ok(b) => b,
                    Err(p) if refuse(&p) => return Step::Refused(p),
                    Err(p) => return Step::Violation(format!("from_iter panicked: {p}")),
                };
                // from_iter == repeated copy
                let mut twin: FS<S, C> = Default::default();
                for v in &vals {
                    co(&mut twin, v);
                }
                if let (Some(a), Some(b)) = (self.render(&built), self.render(&twin)) {
                    if a != b {
                        return Step::Violation(format!("from_iter differs from repeated copy:\n   from_iter: {a}\n   copies:    {b}"));
                    }
                }
                self.st = built;
                self.m = Default::default();
                self.midx.clear();
                for v in &vals {
                    let i = S::m_push(&mut self.m, v);
                    self.midx.push(i);
                }
            }
            OpDef::Clear => {
                let st = &mut self.st;
                if let Err(p) = guard(|| st.clear()) {
                    return Step::Violation(format!("clear() panicked: {p}"));
                }
                self.model.clear();
                S::m_clear(&mut self.m);
                self.midx.clear();
                self.coded_merged = false;
            }
            OpDef::Reserve(n) => {
                let st = &mut self.st;
                if let Err(p) = guard(|| st.reserve(n)) {
                    return Step::Violation(format!("reserve({n}) panicked: {p}"));
                }
            }
            OpDef::ReserveItems => {
                let f = self.caps.reserve_items.unwrap();
                let batch: Vec<S::V> = self.values.iter().take(2).cloned().collect();
                let st = &mut self.st;
                if let Err(p) = guard(|| f(st, &batch)) {
                    if refuse(&p) {
                        return Step::Refused(p);
                    }
                    return Step::Violation(format!("reserve_items panicked: {p}"));
                }
            }
            OpDef::ReserveRegions(k) => {
                let mut src: S::R = Default::default();
                if k == 1 {
                    for v in self.values.iter().rev() {
                        let _ = S::canon_push(&mut src, v);
                    }
                }
                let st = &mut self.st;
                if let Err(p) = guard(|| st.reserve_regions(std::iter::once(&src))) {
                    if refuse(&p) {
                        return Step::Refused(p);
                    }
                    return Step::Violation(format!("reserve_regions panicked: {p}"));
                }
            }
            OpDef::CloneReplace => {
                let f = self.caps.clone.unwrap();
                let st = &self.st;
                match guard(|| f(st)) {
                    Ok(c) => self.st = c,
                    Err(p) => return Step::Violation(format!("clone() panicked: {p}")),
                }
            }
            OpDef::CloneFromReplace => {
                let f = self.caps.clone_from.unwrap();
                let mut dst: FS<S, C> = Default::default();
                if let Some(co) = self.caps.copy_owned {
                    for v in self.values.iter().rev() {
                        co(&mut dst, v);
                    }
                }
                let st = &self.st;
                if let Err(p) = guard(|| f(&mut dst, st)) {
                    return Step::Violation(format!("clone_from() panicked: {p}"));
                }
                self.st = dst;
            }
            OpDef::CloneFromMerged => {
                let f = self.caps.clone_from.unwrap();
                let mut src: FS<S, C> = Default::default();
                if let Some(co) = self.caps.copy_owned {
                    for v in self.values.iter().take(2) {
                        co(&mut src, v);
                    }
                }
                let st = &self.st;
                let r = guard(|| {
                    let mut dst = FS::<S, C>::merge_capacity(std::iter::once(&src));
                    f(&mut dst, st);
                    dst
                });
                match r {
                    Ok(dst) => self.st = dst,
                    Err(p) => return Step::Violation(format!("clone_from() into a merged stack panicked: {p}")),
                }
            }
            OpDef::MergeCapacity(k) => {
                let st = &self.st;
                let m = guard(|| match k {
                    0 => FS::<S, C>::merge_capacity(std::iter::empty()),
                    _ => FS::<S, C>::merge_capacity(std::iter::once(st)),
                });
                match m {
                    Ok(m) => self.st = m,
                    Err(p) if refuse(&p) => return Step::Refused(p),
                    Err(p) => return Step::Violation(format!("merge_capacity panicked: {p}")),
                }
                self.model.clear();
                self.m = if k == 0 { S::m_merged(&[]) } else { S::m_merged(&[&self.m]) };
                self.midx.clear();
                self.coded_merged = self.e.coded != Coded::No;
            }
            OpDef::WithCapacity(n) => {
                match guard(|| FS::<S, C>::with_capacity(n)) {
                    Ok(m) => self.st = m,
                    Err(p) => return Step::Violation(format!("with_capacity panicked: {p}")),
                }
                self.model.clear();
                self.m = Default::default();
                self.midx.clear();
                self.coded_merged = false;
            }
            OpDef::Serde => {
                let (ser, de) = (self.caps.ser.unwrap(), self.caps.de.unwrap());
                let st = &self.st;
                let r = guard(|| -> Result<(String, FS<S, C>), String> {
                    let s = ser(st)?;
                    let c = de(&s)?;
                    Ok((s, c))
                });
                match r {
                    Ok(Ok((s, c))) => {
                        match ser(&c) {
                            Ok(s2) if s2 == s => {}
                            other => return Step::Violation(format!("re-serialisation differs: {s} vs {:?}", other)),
                        }
                        self.st = c;
                    }
                    Ok(Err(e)) => return Step::Violation(format!("serde round trip failed: {e}")),
                    Err(p) => return Step::Violation(format!("serde round trip panicked: {p}")),
                }
            }
        }
        if is_clear && self.e.has_heap {
            let mut after = Vec::new();
            self.st.heap_size(|_, c| after.push(c));
            if after.len() < caps_before.len() {
                return Step::Violation(format!(
                    "after clear() heap_size makes {} callbacks instead of {}: a storage stopped contributing ({caps_before:?} -> {after:?})",
                    after.len(),
                    caps_before.len()
                ));
            }
            if after.len() == caps_before.len() {
                if let Some(i) = (0..after.len()).find(|i| after[*i] < caps_before[*i]) {
                    return Step::Violation(format!("after clear() reported capacity #{i} shrank: {caps_before:?} -> {after:?}"));
                }
            }
        }
        match self.check() {
            Ok(()) => {
                self.tags.push(format!("len:{}:oob-panics", self.model.len().min(4)));
                Step::Ok
            }
            Err(e) => Step::Violation(format!("after {what}: {e}")),
        }
    }
    fn fingerprint(&self) -> Option<String> {
        let r = self.render(&self.st)?;
        Some(format!("{r}|{:?}", self.model))
    }
    fn drain_tags(&mut self) -> Vec<String> {
        std::mem::take(&mut self.tags)
    }
    fn script_default(&self, pos: usize) -> Option<OpId> {
        // round robin over the values with the first copy form
        let per = self.caps.copy_owned.is_some() as usize + self.caps.copy_ref.is_some() as usize;
        let nv = self.values.len();
        let v = match self.script {
            0 => pos % nv,
            _ => (pos / 3) % nv,
        };
        Some((v * per) as u32)
    }
    fn script_deviations(&self, pos: usize) -> Vec<OpId> {
        let d = self.script_default(pos);
        (0..self.ops.len() as u32).filter(|o| Some(*o) != d).collect()
    }
}
