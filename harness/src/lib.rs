//! fcmc library: engine, catalogue, machines and the property -> jobs table.

pub mod alloc_count;
pub mod catalogue;
pub mod engine;
pub mod m_alloc;
pub mod m_clone;
pub mod m_cmp;
pub mod m_dict;
pub mod m_huff;
pub mod m_index;
pub mod m_life;
pub mod m_stack;
pub mod props;
pub mod selftest;
pub mod spec;

pub enum Mode {
    Bfs(engine::BfsCfg),
    Dev(engine::DevCfg),
}

pub struct Job {
    pub factory: Box<dyn Fn() -> Box<dyn engine::Machine> + Sync + Send>,
    pub mode: Mode,
    /// big jobs run alone and parallelise internally; small jobs run concurrently, single-threaded
    pub big: bool,
}
