//! Self-test of the explorer on toy machines with known state spaces (run by `./check --build`).

use crate::engine::{bfs, deviations, BfsCfg, DevCfg, Machine, OpId, Step};

/// counter modulo `m` with ops {inc, reset}; violates at value `bad` (if any)
struct Toy {
    m: u32,
    bad: Option<u32>,
    x: u32,
}

impl Machine for Toy {
    fn name(&self) -> String {
        "toy".into()
    }
    fn reset(&mut self) {
        self.x = 0;
    }
    fn enabled(&self) -> Vec<OpId> {
        vec![0, 1]
    }
    fn describe(&self, op: OpId) -> String {
        ["inc", "reset"][op as usize].into()
    }
    fn step(&mut self, op: OpId) -> Step {
        if op == 0 {
            self.x = (self.x + 1) % self.m;
        } else {
            self.x = 0;
        }
        if Some(self.x) == self.bad {
            return Step::Violation(format!("reached {}", self.x));
        }
        Step::Ok
    }
    fn fingerprint(&self) -> Option<String> {
        Some(self.x.to_string())
    }
    fn script_default(&self, _pos: usize) -> Option<OpId> {
        Some(0)
    }
    fn script_deviations(&self, _pos: usize) -> Vec<OpId> {
        vec![1]
    }
}

pub fn run() -> Result<String, String> {
    // 1. BFS with state matching finds exactly the 7 states of a mod-7 counter, 14 transitions
    let f = || Box::new(Toy { m: 7, bad: None, x: 0 }) as Box<dyn Machine>;
    let r = bfs(&f, &BfsCfg::new(20));
    if r.states != 7 || r.transitions != 14 || !r.exhaustive || !r.violations.is_empty() {
        return Err(format!("bfs on the mod-7 counter: states={} transitions={} exhaustive={}", r.states, r.transitions, r.exhaustive));
    }
    // 2. the shortest counterexample is found (5 incs), and the violating branch is not expanded
    let f = || Box::new(Toy { m: 7, bad: Some(5), x: 0 }) as Box<dyn Machine>;
    let r = bfs(&f, &BfsCfg::new(20));
    let shortest = r.violations.first().map(|v| v.ops.clone());
    if shortest != Some(vec![0, 0, 0, 0, 0]) || r.states != 5 {
        return Err(format!("bfs counterexample: {:?}, states={}", shortest, r.states));
    }
    // 3. depth bound is respected: depth 3 reaches values 0..3 only
    let f = || Box::new(Toy { m: 7, bad: Some(5), x: 0 }) as Box<dyn Machine>;
    let r = bfs(&f, &BfsCfg::new(3));
    if r.states != 4 || !r.violations.is_empty() {
        return Err(format!("bfs depth 3: states={} violations={}", r.states, r.violations.len()));
    }
    // 4. deviation-bounded runs: horizon 10, k = 2 -> 1 + 10 + C(10,2) = 56 executions
    let f = || Box::new(Toy { m: 1000, bad: None, x: 0 }) as Box<dyn Machine>;
    let r = deviations(&f, &DevCfg::new(10, 2));
    if r.executions != 56 || r.transitions != 560 {
        return Err(format!("deviation runs: executions={} steps={}", r.executions, r.transitions));
    }
    // 5. a violation that needs exactly two deviations is found with k = 2 and not with k = 1:
    //    value 3 is only reachable as inc,inc,inc after a reset at position >= ... use bad = horizon-2 pattern
    struct Two {
        resets: u32,
        x: u32,
    }
    impl Machine for Two {
        fn name(&self) -> String {
            "two".into()
        }
        fn reset(&mut self) {
            self.resets = 0;
            self.x = 0;
        }
        fn enabled(&self) -> Vec<OpId> {
            vec![0, 1]
        }
        fn describe(&self, op: OpId) -> String {
            op.to_string()
        }
        fn step(&mut self, op: OpId) -> Step {
            if op == 1 {
                self.resets += 1;
            }
            self.x += 1;
            if self.resets == 2 {
                Step::Violation("two resets".into())
            } else {
                Step::Ok
            }
        }
        fn fingerprint(&self) -> Option<String> {
            None
        }
        fn script_default(&self, _pos: usize) -> Option<OpId> {
            Some(0)
        }
        fn script_deviations(&self, _pos: usize) -> Vec<OpId> {
            vec![1]
        }
    }
    let f = || Box::new(Two { resets: 0, x: 0 }) as Box<dyn Machine>;
    let r1 = deviations(&f, &DevCfg::new(6, 1));
    let mut c2 = DevCfg::new(6, 2);
    c2.max_violations = 100;
    let r2 = deviations(&f, &c2);
    if !r1.violations.is_empty() || r2.violations.is_empty() {
        return Err(format!("deviation bound: k=1 found {}, k=2 found {}", r1.violations.len(), r2.violations.len()));
    }
    Ok("explorer self-test passed (BFS state count, shortest counterexample, depth bound, deviation counts and bound)".into())
}
