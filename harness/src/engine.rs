//! fcmc engine: explicit-state, bounded-exhaustive exploration of operation histories on the
//! real flatcontainer code.
//!
//! * state  = operation history (live objects are never copied; every expansion replays the
//!            history on a fresh real object),
//! * BFS by depth with state matching on a fingerprint of the *complete* implementation state,
//! * deviation-bounded long runs (iterative context bounding transplanted to sequential code),
//! * every step executes real flatcontainer functions, followed by the machine's oracle.

use std::cell::RefCell;
use std::collections::{BTreeMap, HashSet};
use std::hash::{Hash, Hasher};
use std::panic::{catch_unwind, AssertUnwindSafe};
use std::time::Instant;

pub type OpId = u32;

/// Result of one step of a machine.
pub enum Step {
    /// Real code ran, oracle satisfied.
    Ok,
    /// Real code refused the operation (panicked) and the oracle sanctions that. Branch ends.
    Refused(String),
    /// Property violated.
    Violation(String),
}

pub trait Machine {
    fn name(&self) -> String;
    /// Fresh real object(s) + fresh model.
    fn reset(&mut self);
    /// Finite menu of operations in the current state.
    fn enabled(&self) -> Vec<OpId>;
    /// Human readable rendering of `op` *in the current state* (state-relative ops are resolved).
    fn describe(&self, op: OpId) -> String;
    /// Runs the real code for `op`, then the oracle.
    fn step(&mut self, op: OpId) -> Step;
    /// Canonical rendering of (implementation state, model state). `None`: no state matching.
    fn fingerprint(&self) -> Option<String>;
    /// Oracle evaluated once per explored state (after replay, before expansion).
    fn check_state(&mut self) -> Result<(), String> {
        Ok(())
    }
    /// Outcome tags observed since the last call (for the vacuity table).
    fn drain_tags(&mut self) -> Vec<String> {
        Vec::new()
    }
    /// Default op of a long scripted run at position `pos` (deviation-bounded mode).
    fn script_default(&self, _pos: usize) -> Option<OpId> {
        None
    }
    /// Alternatives to the default op at position `pos`.
    fn script_deviations(&self, _pos: usize) -> Vec<OpId> {
        Vec::new()
    }
}

pub type Factory<'a> = &'a (dyn Fn() -> Box<dyn Machine> + Sync);

thread_local! {
    static LAST_PANIC: RefCell<String> = RefCell::new(String::new());
}

pub fn install_panic_hook() {
    std::panic::set_hook(Box::new(|info| {
        let s = info.to_string();
        LAST_PANIC.with(|c| *c.borrow_mut() = s);
    }));
}

/// Run `f` (real code) and turn a panic into `Err(message)`.
pub fn guard<T>(f: impl FnOnce() -> T) -> Result<T, String> {
    match catch_unwind(AssertUnwindSafe(f)) {
        Ok(v) => Ok(v),
        Err(_) => Err(LAST_PANIC.with(|c| {
            let s = c.borrow().clone();
            let s = s.replace('\n', " ");
            if s.len() > 300 {
                format!("{}…", &s[..s.char_indices().take(300).last().map(|x| x.0).unwrap_or(0)])
            } else {
                s
            }
        })),
    }
}

/// Panics that mean "more than usize::MAX zero-sized elements": resource exhaustion, which the
/// reference models do not contain (only consulted for zero-sized-element compositions).
pub fn exhaustion(p: &str) -> bool {
    p.contains("capacity overflow") || (p.contains("attempt to add with overflow") && p.contains("iter/traits/accum.rs"))
}

fn safe_step(m: &mut dyn Machine, op: OpId) -> Step {
    match guard(|| m.step(op)) {
        // messages quote values: keep them bounded (char boundary safe)
        Ok(Step::Violation(s)) if s.len() > 1500 => {
            let mut end = 1500;
            while !s.is_char_boundary(end) {
                end -= 1;
            }
            Step::Violation(format!("{}… ({} bytes in all)", &s[..end], s.len()))
        }
        Ok(s) => s,
        Err(msg) => Step::Violation(format!("panic escaped the oracle's guards: {msg}")),
    }
}

pub fn fp_hash(s: &str) -> u128 {
    let mut h1 = std::collections::hash_map::DefaultHasher::new();
    0u8.hash(&mut h1);
    s.hash(&mut h1);
    let mut h2 = std::collections::hash_map::DefaultHasher::new();
    0xA5u8.hash(&mut h2);
    s.len().hash(&mut h2);
    s.hash(&mut h2);
    ((h1.finish() as u128) << 64) | h2.finish() as u128
}

#[derive(Clone, Debug)]
pub struct ViolationRec {
    pub machine: String,
    pub mode: String,
    pub ops: Vec<OpId>,
    pub descs: Vec<String>,
    pub message: String,
}

#[derive(Clone, Debug, Default)]
pub struct Report {
    pub machine: String,
    pub mode: String,
    pub states: u64,
    pub transitions: u64,
    pub executions: u64,
    pub replayed_steps: u64,
    pub refused: u64,
    pub depth: usize,
    pub bound: String,
    pub exhaustive: bool,
    pub caps: Vec<String>,
    pub tags: BTreeMap<String, u64>,
    pub samples: Vec<String>,
    pub violations: Vec<ViolationRec>,
    pub machinery_errors: Vec<String>,
    pub wall_s: f64,
}

#[derive(Clone)]
pub struct BfsCfg {
    pub max_depth: usize,
    pub max_states: u64,
    pub wall_cap_s: f64,
    pub threads: usize,
    pub max_violations: usize,
}

impl BfsCfg {
    pub fn new(max_depth: usize) -> Self {
        BfsCfg {
            max_depth,
            max_states: 4_000_000,
            wall_cap_s: 600.0,
            threads: threads(),
            max_violations: 3,
        }
    }
}

pub fn threads() -> usize {
    std::env::var("FCMC_THREADS")
        .ok()
        .and_then(|s| s.parse().ok())
        .unwrap_or_else(|| std::thread::available_parallelism().map(|n| n.get()).unwrap_or(4))
}

struct Node {
    hist: Vec<OpId>,
    fp: Option<u128>,
}

struct Child {
    hist: Vec<OpId>,
    fp: Option<u128>,
}

#[derive(Default)]
struct ChunkOut {
    children: Vec<Child>,
    transitions: u64,
    replayed: u64,
    refused: u64,
    tags: BTreeMap<String, u64>,
    violations: Vec<ViolationRec>,
    errors: Vec<String>,
    samples: Vec<String>,
}

/// Replays `hist` on a reset machine. Returns descriptions. Any non-Ok step is a machinery error
/// (the history was explored before and was Ok then: the harness would not own all nondeterminism).
fn replay(m: &mut dyn Machine, hist: &[OpId], descs: Option<&mut Vec<String>>) -> Result<(), String> {
    m.reset();
    let mut d = descs;
    for (i, &op) in hist.iter().enumerate() {
        if let Some(d) = d.as_deref_mut() {
            d.push(m.describe(op));
        }
        match safe_step(m, op) {
            Step::Ok => {}
            Step::Refused(s) => return Err(format!("replay divergence at step {i}: refused: {s}")),
            Step::Violation(s) => return Err(format!("replay divergence at step {i}: violation: {s}")),
        }
    }
    let _ = m.drain_tags();
    Ok(())
}

fn expand_chunk(factory: Factory, nodes: &[Node], expand: bool, want_samples: usize) -> ChunkOut {
    let mut out = ChunkOut::default();
    let mut m = factory();
    for node in nodes {
        if let Err(e) = replay(m.as_mut(), &node.hist, None) {
            out.errors.push(format!("{}: {:?}: {}", m.name(), node.hist, e));
            continue;
        }
        out.replayed += node.hist.len() as u64;
        if let Some(fp) = node.fp {
            let now = m.fingerprint().map(|s| fp_hash(&s));
            if now != Some(fp) {
                out.errors.push(format!(
                    "{}: fingerprint divergence on replay of {:?}",
                    m.name(),
                    node.hist
                ));
                continue;
            }
        }
        // state oracle
        match guard(|| m.check_state()) {
            Ok(Ok(())) => {}
            Ok(Err(msg)) | Err(msg) => {
                let mut descs = Vec::new();
                let _ = replay(m.as_mut(), &node.hist, Some(&mut descs));
                out.violations.push(ViolationRec {
                    machine: m.name(),
                    mode: "bfs".into(),
                    ops: node.hist.clone(),
                    descs,
                    message: format!("state oracle: {msg}"),
                });
                continue;
            }
        }
        for (k, v) in m.drain_tags().into_iter().map(|t| (t, 1u64)) {
            *out.tags.entry(k).or_insert(0) += v;
        }
        if !expand {
            continue;
        }
        let ops = m.enabled();
        let mut first = true;
        for op in ops {
            if !first {
                if let Err(e) = replay(m.as_mut(), &node.hist, None) {
                    out.errors.push(format!("{}: {:?}: {}", m.name(), node.hist, e));
                    break;
                }
                out.replayed += node.hist.len() as u64;
            }
            first = false;
            let desc = m.describe(op);
            out.transitions += 1;
            let r = safe_step(m.as_mut(), op);
            for t in m.drain_tags() {
                *out.tags.entry(t).or_insert(0) += 1;
            }
            match r {
                Step::Ok => {
                    let fp = m.fingerprint().map(|s| fp_hash(&s));
                    let mut h = node.hist.clone();
                    h.push(op);
                    // sample a history from the far end of the chunk (more varied than the first child)
                    if want_samples > 0 && h.len() >= 2 && std::ptr::eq(node, nodes.last().unwrap()) {
                        out.samples.clear();
                        let mut descs = Vec::new();
                        // cheap: only describe, by replaying
                        let _ = replay(m.as_mut(), &h, Some(&mut descs));
                        out.samples.push(descs.join(" ; "));
                    }
                    out.children.push(Child { hist: h, fp });
                }
                Step::Refused(_) => {
                    out.refused += 1;
                }
                Step::Violation(msg) => {
                    let mut descs = Vec::new();
                    let _ = replay(m.as_mut(), &node.hist, Some(&mut descs));
                    descs.push(desc);
                    let mut h = node.hist.clone();
                    h.push(op);
                    out.violations.push(ViolationRec {
                        machine: m.name(),
                        mode: "bfs".into(),
                        ops: h,
                        descs,
                        message: msg,
                    });
                }
            }
        }
    }
    out
}

fn run_parallel<T: Send, I: Sync>(
    items: &[I],
    threads: usize,
    min_per_thread: usize,
    f: &(dyn Fn(&[I]) -> T + Sync),
) -> Vec<T> {
    if items.is_empty() {
        return Vec::new();
    }
    let t = threads.max(1).min((items.len() + min_per_thread - 1) / min_per_thread).max(1);
    if t == 1 {
        return vec![f(items)];
    }
    let chunk = (items.len() + t - 1) / t;
    let mut outs: Vec<Option<T>> = Vec::new();
    std::thread::scope(|s| {
        let handles: Vec<_> = items
            .chunks(chunk)
            .map(|c| {
                std::thread::Builder::new()
                    .stack_size(64 << 20)
                    .spawn_scoped(s, move || f(c))
                    .expect("spawn")
            })
            .collect();
        for h in handles {
            outs.push(h.join().ok());
        }
    });
    outs.into_iter().map(|o| o.expect("worker thread died")).collect()
}

/// Breadth-first exploration by depth with state matching.
pub fn bfs(factory: Factory, cfg: &BfsCfg) -> Report {
    let t0 = Instant::now();
    let mut rep = Report::default();
    rep.mode = "bfs".into();
    rep.exhaustive = true;
    let mut m = factory();
    rep.machine = m.name();
    m.reset();
    let root_fp = m.fingerprint().map(|s| fp_hash(&s));
    drop(m);
    let mut seen: HashSet<u128> = HashSet::new();
    if let Some(fp) = root_fp {
        seen.insert(fp);
    }
    rep.states = 1;
    let mut frontier = vec![Node { hist: vec![], fp: root_fp }];
    let mut depth = 0;
    loop {
        let expand = depth < cfg.max_depth;
        let want_samples = 1;
        let outs = run_parallel(&frontier, cfg.threads, 8, &|c: &[Node]| {
            expand_chunk(factory, c, expand, want_samples)
        });
        let mut next: Vec<Node> = Vec::new();
        for o in outs {
            rep.transitions += o.transitions;
            rep.replayed_steps += o.replayed;
            rep.refused += o.refused;
            for (k, v) in o.tags {
                *rep.tags.entry(k).or_insert(0) += v;
            }
            rep.violations.extend(o.violations);
            rep.machinery_errors.extend(o.errors);
            for s in o.samples {
                // keep one shallow sample and otherwise prefer the deepest histories seen
                if rep.samples.len() < 3 {
                    rep.samples.push(s);
                } else {
                    rep.samples[2] = s;
                }
            }
            for c in o.children {
                let new = match c.fp {
                    Some(fp) => seen.insert(fp),
                    None => true,
                };
                if new {
                    rep.states += 1;
                    next.push(Node { hist: c.hist, fp: c.fp });
                }
            }
        }
        if !expand {
            break;
        }
        depth += 1;
        rep.depth = depth;
        if !rep.machinery_errors.is_empty() {
            rep.exhaustive = false;
            break;
        }
        if rep.violations.len() >= cfg.max_violations {
            rep.exhaustive = false;
            rep.caps.push(format!("stopped after {} violations at depth {}", rep.violations.len(), depth));
            break;
        }
        if next.is_empty() {
            break;
        }
        if rep.states > cfg.max_states || t0.elapsed().as_secs_f64() > cfg.wall_cap_s {
            rep.exhaustive = false;
            rep.caps.push(format!(
                "cap hit after depth {} (states={}, wall={:.0}s): depth {} fully expanded, its successors not checked by the state oracle",
                depth,
                rep.states,
                t0.elapsed().as_secs_f64(),
                depth
            ));
            break;
        }
        frontier = next;
    }
    rep.violations.sort_by_key(|v| v.ops.len());
    rep.violations.truncate(cfg.max_violations);
    rep.executions = rep.transitions;
    rep.bound = format!("depth<={}", rep.depth);
    rep.wall_s = t0.elapsed().as_secs_f64();
    rep
}

#[derive(Clone)]
pub struct DevCfg {
    pub horizon: usize,
    pub k: usize,
    pub wall_cap_s: f64,
    pub threads: usize,
    pub max_violations: usize,
}

impl DevCfg {
    pub fn new(horizon: usize, k: usize) -> Self {
        DevCfg { horizon, k, wall_cap_s: 600.0, threads: threads(), max_violations: 3 }
    }
}

#[derive(Clone)]
struct Plan {
    devs: Vec<(usize, usize)>, // (position, alternative index)
}

#[derive(Default)]
struct DevOut {
    next: Vec<Plan>,
    runs: u64,
    steps: u64,
    refused: u64,
    tags: BTreeMap<String, u64>,
    violations: Vec<ViolationRec>,
    errors: Vec<String>,
    samples: Vec<String>,
}

fn run_plans(factory: Factory, plans: &[Plan], horizon: usize, extend: bool) -> DevOut {
    let mut out = DevOut::default();
    let mut m = factory();
    for plan in plans {
        m.reset();
        out.runs += 1;
        let last_dev = plan.devs.last().map(|d| d.0 as isize).unwrap_or(-1);
        let mut ops = Vec::new();
        let mut descs = Vec::new();
        let mut nalts: Vec<(usize, usize)> = Vec::new();
        let mut ended = false;
        for pos in 0..horizon {
            let planned = plan.devs.iter().find(|d| d.0 == pos).map(|d| d.1);
            let op = match planned {
                Some(alt) => {
                    let alts = m.script_deviations(pos);
                    match alts.get(alt) {
                        Some(&o) => o,
                        None => {
                            out.errors.push(format!(
                                "{}: planned deviation {alt} at {pos} out of range ({} alternatives)",
                                m.name(),
                                alts.len()
                            ));
                            ended = true;
                            break;
                        }
                    }
                }
                None => {
                    if (pos as isize) > last_dev && extend {
                        nalts.push((pos, m.script_deviations(pos).len()));
                    }
                    match m.script_default(pos) {
                        Some(o) => o,
                        None => break,
                    }
                }
            };
            descs.push(m.describe(op));
            ops.push(op);
            out.steps += 1;
            let r = safe_step(m.as_mut(), op);
            for t in m.drain_tags() {
                *out.tags.entry(t).or_insert(0) += 1;
            }
            match r {
                Step::Ok => {}
                Step::Refused(_) => {
                    out.refused += 1;
                    ended = true;
                    break;
                }
                Step::Violation(msg) => {
                    out.violations.push(ViolationRec {
                        machine: m.name(),
                        mode: "dev".into(),
                        ops: ops.clone(),
                        descs: descs.clone(),
                        message: msg,
                    });
                    ended = true;
                    break;
                }
            }
        }
        if !ended {
            if let Ok(Err(msg)) | Err(msg) = guard(|| m.check_state()) {
                out.violations.push(ViolationRec {
                    machine: m.name(),
                    mode: "dev".into(),
                    ops: ops.clone(),
                    descs: descs.clone(),
                    message: format!("state oracle: {msg}"),
                });
            }
        }
        if out.samples.is_empty() && !plan.devs.is_empty() {
            let shown: Vec<String> = plan
                .devs
                .iter()
                .map(|d| format!("@{}: {}", d.0, descs.get(d.0).cloned().unwrap_or_default()))
                .collect();
            out.samples.push(format!("default run of {} steps with deviations {}", descs.len(), shown.join(", ")));
        }
        if extend {
            for (pos, n) in nalts {
                for alt in 0..n {
                    let mut devs = plan.devs.clone();
                    devs.push((pos, alt));
                    out.next.push(Plan { devs });
                }
            }
        }
    }
    out
}

/// Deviation-bounded exploration of long scripted runs: every placement of <= k deviations.
pub fn deviations(factory: Factory, cfg: &DevCfg) -> Report {
    let t0 = Instant::now();
    let mut rep = Report::default();
    rep.mode = "dev".into();
    rep.exhaustive = true;
    rep.machine = factory().name();
    let mut plans = vec![Plan { devs: vec![] }];
    let mut completed_k = 0;
    for level in 0..=cfg.k {
        let extend = level < cfg.k;
        let outs = run_parallel(&plans, cfg.threads, 4, &|c: &[Plan]| {
            run_plans(factory, c, cfg.horizon, extend)
        });
        let mut next = Vec::new();
        for o in outs {
            rep.executions += o.runs;
            rep.transitions += o.steps;
            rep.refused += o.refused;
            for (k, v) in o.tags {
                *rep.tags.entry(k).or_insert(0) += v;
            }
            rep.violations.extend(o.violations);
            rep.machinery_errors.extend(o.errors);
            for s in o.samples {
                if rep.samples.len() < 3 {
                    rep.samples.push(s);
                }
            }
            next.extend(o.next);
        }
        completed_k = level;
        if !rep.machinery_errors.is_empty() || rep.violations.len() >= cfg.max_violations {
            rep.exhaustive = false;
            break;
        }
        if extend && t0.elapsed().as_secs_f64() > cfg.wall_cap_s {
            rep.exhaustive = false;
            rep.caps.push(format!("wall cap hit: deviation bound {} completed, {} not started", level, level + 1));
            break;
        }
        plans = next;
        if plans.is_empty() {
            break;
        }
    }
    rep.states = rep.executions; // no state matching in this mode: one distinct complete history per execution
    rep.depth = cfg.horizon;
    rep.bound = format!("horizon={} deviations<={}", cfg.horizon, completed_k);
    rep.violations.sort_by_key(|v| v.ops.len());
    rep.violations.truncate(cfg.max_violations);
    rep.wall_s = t0.elapsed().as_secs_f64();
    rep
}

/// Outcome of replaying one recorded history.
pub struct ReplayOutcome {
    pub descs: Vec<String>,
    pub result: String,
    pub violated: bool,
}

pub fn replay_history(factory: Factory, ops: &[OpId]) -> ReplayOutcome {
    let mut m = factory();
    m.reset();
    let mut descs = Vec::new();
    for (i, &op) in ops.iter().enumerate() {
        if !m.enabled().contains(&op) && m.script_default(i).is_none() {
            return ReplayOutcome {
                descs,
                result: format!("step {i}: op {op} is not enabled in this state (stale replay file?)"),
                violated: false,
            };
        }
        descs.push(m.describe(op));
        match safe_step(m.as_mut(), op) {
            Step::Ok => {}
            Step::Refused(s) => {
                return ReplayOutcome { descs, result: format!("step {i}: refused: {s}"), violated: false }
            }
            Step::Violation(s) => {
                return ReplayOutcome { descs, result: format!("step {i}: VIOLATION: {s}"), violated: true }
            }
        }
    }
    match guard(|| m.check_state()) {
        Ok(Ok(())) => ReplayOutcome { descs, result: "ok".into(), violated: false },
        Ok(Err(s)) | Err(s) => ReplayOutcome { descs, result: format!("final state: VIOLATION: {s}"), violated: true },
    }
}

/// Positional iterator methods an implementation may override (`nth`, and through it `skip` / `step_by`): every
/// one must agree with stepping by `next`. `same(item, j)` decides whether `item` is the j-th element of the
/// expected sequence of `n` elements. Bounded: no call consumes an unbounded iterator.
pub fn iter_laws<I: Iterator + Clone>(it: &I, n: usize, same: &dyn Fn(I::Item, usize) -> Result<(), String>) -> Result<(), String> {
    let mut ks: Vec<usize> = (0..n.min(10)).collect();
    ks.extend([n / 2, n.saturating_sub(2), n.saturating_sub(1), n, n + 1]);
    ks.sort();
    ks.dedup();
    for &k in &ks {
        let mut c = it.clone();
        match c.nth(k) {
            Some(x) if k < n => same(x, k).map_err(|e| format!("nth({k}): {e}"))?,
            Some(_) => return Err(format!("nth({k}) yields an item although there are only {n}")),
            None if k < n => return Err(format!("nth({k}) yields None although there are {n} items")),
            None => {}
        }
        // the iterator continues behind the element nth returned
        match c.next() {
            Some(x) if k + 1 < n => same(x, k + 1).map_err(|e| format!("next() after nth({k}): {e}"))?,
            Some(_) => return Err(format!("next() after nth({k}) yields an item although there are only {n}")),
            None if k + 1 < n => return Err(format!("next() after nth({k}) yields None although there are {n} items")),
            None => {}
        }
        let mut j = k;
        for x in it.clone().skip(k).take(n + 1) {
            if j >= n {
                return Err(format!("skip({k}) yields more than the remaining {} items", n - k.min(n)));
            }
            same(x, j).map_err(|e| format!("skip({k}) position {j}: {e}"))?;
            j += 1;
        }
        if j < n {
            return Err(format!("skip({k}) yields {} items, expected {}", j - k, n - k));
        }
    }
    for step in [2usize, 3] {
        let mut j = 0;
        for x in it.clone().step_by(step).take(n + 1) {
            if j >= n {
                return Err(format!("step_by({step}) yields too many items"));
            }
            same(x, j).map_err(|e| format!("step_by({step}) at position {j}: {e}"))?;
            j += step;
        }
        if j < n {
            return Err(format!("step_by({step}) stops before position {j} of {n}"));
        }
    }
    Ok(())
}
