//! C07: dictionary codec machine. A pool of up to three live `CodecRegion<DictionaryCodec>`;
//! ops push (fixed + state-relative alphabet) / merge_regions(any subset) / clear / switch.

use crate::engine::{guard, Machine, OpId, Step};
use flatcontainer::impls::codec::{CodecRegion, DictionaryCodec};
use flatcontainer::{Push, Region};

type R = CodecRegion<DictionaryCodec>;

struct Reg {
    r: R,
    issued: Vec<((usize, usize), Vec<u8>)>,
    /// accepted pushes since creation / clear: the statistics this region carries
    pushes: Vec<Vec<u8>>,
    gen: usize,
    /// statistics of the regions this one was merged from
    sources: Option<Sources>,
    /// since the last clear(): a region that was fresh (Default) at that moment and received the same pushes.
    /// A cleared region must be indistinguishable from it, also as a source of merge_regions (C08).
    twin: Option<R>,
}

impl Reg {
    fn new(r: R, gen: usize) -> Self {
        Reg { r, issued: vec![], pushes: vec![], gen, sources: None, twin: None }
    }
    /// pushes `s` into the fresh twin as well; the twin must accept it and answer with the same index
    fn twin_push(&mut self, s: &[u8], idx: (usize, usize)) -> Result<(), String> {
        if let Some(t) = &mut self.twin {
            match guard(|| t.push(s)) {
                Ok(i) if i == idx => {}
                Ok(i) => {
                    return Err(format!(
                        "push({}) returns index {idx:?} on the cleared region and {i:?} on a fresh region with the same pushes",
                        show_bytes(s)
                    ))
                }
                Err(p) => return Err(format!("push({}) was accepted by the cleared region but a fresh region with the same pushes panicked: {p}", show_bytes(s))),
            }
        }
        Ok(())
    }
}

#[derive(Clone, Copy, PartialEq, Eq, Debug)]
pub enum Alphabet {
    /// fixed small alphabet + strings derived from the current dictionary
    Relative,
    /// every first byte x lengths {1, 2}
    AllBytes,
}

#[derive(Clone, Debug)]
pub struct DictCfg {
    pub seed: u8,
    pub alphabet: Alphabet,
    pub max_merges: usize,
}

pub struct DictMachine {
    cfg: DictCfg,
    pool: Vec<Reg>,
    cur: usize,
    merges: usize,
    tags: Vec<String>,
    /// a push or merge of the scripted start state failed although nothing allows it to
    seed_error: Option<String>,
}

const FIXED: [&[u8]; 9] = [b"", b"a", b"ab", b"abc", b"b", b"\0", b"\0x", b"\x01", b"\x01x"];
const N_REL: usize = 30; // (3 first + 3 last dictionary entries) x 5 derived strings
const OP_PUSH: u32 = 0; // .. FIXED.len() + N_REL  (or 512 for AllBytes)
const OP_CLEAR: u32 = 1000;
const OP_SWITCH: u32 = 1001; // + k
const OP_MERGE: u32 = 1010; // + mask (0..8)

fn inner_used(r: &R) -> usize {
    let mut first = None;
    r.heap_size(|u, _| {
        if first.is_none() {
            first = Some(u)
        }
    });
    first.unwrap_or(0)
}

impl DictMachine {
    pub fn new(cfg: DictCfg) -> Self {
        DictMachine { cfg, pool: vec![], cur: 0, merges: 0, tags: vec![], seed_error: None }
    }

    fn relative(&self, k: usize) -> Option<Vec<u8>> {
        let dict = self.pool[self.cur].r.verif_codec().verif_dictionary();
        // the first three and the last three entries (the latter sit at the far end of the decode table)
        let e = k / 5;
        let (entry, tag) = if e < 3 {
            dict.get(e)?
        } else {
            if dict.len() < 4 {
                return None;
            }
            dict.get(dict.len().checked_sub(e - 2)?)?
        };
        Some(match k % 5 {
            0 => entry.clone(),
            1 => {
                let mut e = entry.clone();
                e.push(b'z');
                e
            }
            2 => {
                if entry.len() < 2 {
                    return None;
                }
                entry[..entry.len() - 1].to_vec()
            }
            3 => vec![*tag],
            _ => vec![*tag, b'z'],
        })
    }

    fn value(&self, op: OpId) -> Option<Vec<u8>> {
        let k = (op - OP_PUSH) as usize;
        match self.cfg.alphabet {
            Alphabet::Relative => {
                if k < FIXED.len() {
                    Some(FIXED[k].to_vec())
                } else if k == FIXED.len() + N_REL {
                    // the most frequent string of the sources the current region was built from
                    // (taken from the model, so it is offered whether or not the dictionary holds it)
                    let src = self.pool[self.cur].sources.as_ref()?;
                    src.counts.iter().max_by_key(|x| x.1).map(|x| x.0.clone())
                } else {
                    self.relative(k - FIXED.len())
                }
            }
            Alphabet::AllBytes => {
                let b = (k % 256) as u8;
                Some(if k < 256 { vec![b] } else { vec![b, b'z'] })
            }
        }
    }

    fn raw_push(reg: &mut Reg, s: &[u8]) -> Result<(usize, usize), String> {
        let r = &mut reg.r;
        guard(|| r.push(s))
    }

    /// A push is allowed to be refused only if the string is not a dictionary entry and its first
    /// byte is a tag that the decoder maps to an entry.
    fn ambiguous(reg: &Reg, s: &[u8]) -> bool {
        let codec = reg.r.verif_codec();
        if s.is_empty() {
            return false;
        }
        let is_entry = codec.verif_dictionary().iter().any(|(e, _)| e.as_slice() == s);
        !is_entry && codec.verif_bound_tags().contains(&s[0])
    }

    fn push(&mut self, s: &[u8]) -> Step {
        let reg = &mut self.pool[self.cur];
        let ambiguous = Self::ambiguous(reg, s);
        let is_entry = reg.r.verif_codec().verif_dictionary().iter().any(|(e, _)| e.as_slice() == s);
        let before = inner_used(&reg.r);
        match Self::raw_push(reg, s) {
            Ok(idx) => {
                reg.issued.push((idx, s.to_vec()));
                reg.pushes.push(s.to_vec());
                if let Err(e) = reg.twin_push(s, idx) {
                    return Step::Violation(e);
                }
                let stored = inner_used(&reg.r) - before;
                self.tags.push(format!(
                    "push:{}:{}",
                    if is_entry { "entry" } else if ambiguous { "ambiguous-accepted" } else { "literal" },
                    if stored == s.len() { "raw" } else if stored == 1 { "1byte" } else { "other" }
                ));
                // dominance => one byte
                if let Some(msg) = self.dominance_violation(s, stored) {
                    return Step::Violation(msg);
                }
                Step::Ok
            }
            Err(p) => {
                // data covered by the statistics the region was built from must be accepted (C01, C10):
                // its first byte was seen by the sources, so it can never be bound to an entry
                let in_statistics = self.pool[self.cur]
                    .sources
                    .as_ref()
                    .map(|src| src.counts.iter().any(|(k, _)| k.as_slice() == s))
                    .unwrap_or(false);
                if ambiguous && in_statistics {
                    Step::Violation(format!(
                        "push({}) was refused although the same string was accepted by a region this one was merged from: {p}",
                        show_bytes(s)
                    ))
                } else if ambiguous {
                    self.tags.push("push:refused-ambiguous".into());
                    Step::Refused(p)
                } else {
                    Step::Violation(format!(
                        "push({}) panicked although the dictionary can represent it unambiguously: {p}",
                        show_bytes(s)
                    ))
                }
            }
        }
    }

    /// `Some(msg)` if `s` dominated (> 1/2 of) the pushes of the sources the current region was
    /// built from, a free tag existed, and it was not stored in exactly one byte.
    fn dominance_violation(&self, s: &[u8], stored: usize) -> Option<String> {
        let reg = &self.pool[self.cur];
        let src = reg.sources.as_ref()?;
        if s.is_empty() || src.total == 0 {
            return None;
        }
        let count = src.counts.iter().find(|(k, _)| k.as_slice() == s).map(|x| x.1).unwrap_or(0);
        // exact statistics: the strictly most frequent string is the first to receive a free tag
        if src.exact && src.first_bytes < 256 && stored != 1 && count > 0 {
            let runner_up = src.counts.iter().filter(|(k, _)| !k.is_empty() && k.as_slice() != s).map(|x| x.1).max().unwrap_or(0);
            if count > runner_up {
                return Some(format!(
                    "{} is the most frequent string of the source regions ({count} pushes, every other string at most {runner_up}; {} pushes in all, exact statistics, a free tag existed), but occupies {stored} bytes instead of 1",
                    show_bytes(s),
                    src.total
                ));
            }
        }
        if 2 * count > src.total && src.first_bytes < 256 && stored != 1 {
            return Some(format!(
                "{} made up {count} of the {} pushes of the source regions (a free tag existed: {} distinct first bytes), but occupies {stored} bytes instead of 1",
                show_bytes(s),
                src.total,
                src.first_bytes
            ));
        }
        None
    }

    fn recheck(&self, what: &str) -> Result<(), String> {
        for (k, reg) in self.pool.iter().enumerate() {
            for (n, (idx, s)) in reg.issued.iter().enumerate() {
                let r = &reg.r;
                match guard(|| r.index(*idx).to_vec()) {
                    Ok(got) => {
                        if &got != s {
                            return Err(format!(
                                "after {what}: region #{k} (generation {}) item #{n}: pushed {}, reads {}",
                                reg.gen,
                                show_bytes(s),
                                show_bytes(&got)
                            ));
                        }
                    }
                    Err(p) => {
                        return Err(format!(
                            "after {what}: region #{k} (generation {}) item #{n}: pushed {}, reading panicked: {p}",
                            reg.gen,
                            show_bytes(s)
                        ))
                    }
                }
            }
        }
        Ok(())
    }

    fn merge(&mut self, mask: u32) -> Step {
        let srcs: Vec<&Reg> = self.pool.iter().enumerate().filter(|(i, _)| mask & (1 << i) != 0).map(|x| x.1).collect();
        let mut counts: Vec<(Vec<u8>, usize)> = Vec::new();
        let mut total = 0;
        let mut firsts = std::collections::BTreeSet::new();
        for s in &srcs {
            for p in &s.pushes {
                total += 1;
                if let Some(b) = p.first() {
                    firsts.insert(*b);
                }
                match counts.iter_mut().find(|(k, _)| k == p) {
                    Some(c) => c.1 += 1,
                    None => counts.push((p.clone(), 1)),
                }
            }
        }
        let gen = srcs.iter().map(|s| s.gen).max().unwrap_or(0) + 1;
        let exact = srcs.iter().all(|s| s.pushes.len() < 1024)
            && srcs
                .iter()
                .map(|s| s.pushes.iter().filter(|p| !p.is_empty()).collect::<std::collections::BTreeSet<_>>().len())
                .sum::<usize>()
                < 1024;
        let merged = guard(|| R::merge_regions(srcs.iter().map(|s| &s.r)));
        let merged = match merged {
            Ok(m) => m,
            Err(p) => return Step::Violation(format!("merge_regions panicked: {p}")),
        };
        // C08: a source that was cleared earlier counts like a fresh region that received the same pushes
        if srcs.iter().any(|s| s.twin.is_some()) {
            let fresh = guard(|| R::merge_regions(srcs.iter().map(|s| s.twin.as_ref().unwrap_or(&s.r))));
            match fresh {
                Ok(f) => {
                    // observable: which strings are dictionary entries (stored in one byte) and which first bytes
                    // are bound tags (refused as literals); the entry -> tag assignment itself is not
                    let (a, b) = (merged.verif_codec().verif_dictionary(), f.verif_codec().verif_dictionary());
                    if a.iter().map(|e| &e.0).ne(b.iter().map(|e| &e.0)) || merged.verif_codec().verif_bound_tags() != f.verif_codec().verif_bound_tags() {
                        let first = a.iter().zip(b.iter()).position(|(x, y)| x.0 != y.0).unwrap_or(a.len().min(b.len()));
                        return Step::Violation(format!(
                            "merge_regions over a region that was cleared earlier learns a different dictionary than over a fresh region that received the same pushes: {} vs {} entries, first difference at entry {first}: {:?} vs {:?}",
                            a.len(),
                            b.len(),
                            a.get(first).map(|e| format!("{} as tag {}", show_bytes(&e.0), e.1)),
                            b.get(first).map(|e| format!("{} as tag {}", show_bytes(&e.0), e.1))
                        ));
                    }
                    self.tags.push("merge:cleared-source-vs-fresh".into());
                }
                Err(p) => return Step::Violation(format!("merge_regions over fresh twins of the sources panicked: {p}")),
            }
        }
        let mut reg = Reg::new(merged, gen);
        reg.sources = Some(Sources { counts, total, first_bytes: firsts.len(), exact });
        if self.pool.len() < 3 {
            self.pool.push(reg);
            self.cur = self.pool.len() - 1;
        } else {
            self.pool[self.cur] = reg;
        }
        self.merges += 1;
        self.tags.push(format!("merge:gen{}:sources{}", gen.min(3), srcs_len(mask)));
        Step::Ok
    }

    fn seed_merge(&mut self, mask: u32) {
        if let Step::Violation(v) = self.merge(mask) {
            self.seed_error.get_or_insert(v);
        }
    }

    fn seed(&mut self) {
        // scripted non-initial states; all through the public API
        let err = std::cell::RefCell::new(None::<String>);
        let train = |reg: &mut Reg, items: &[(&[u8], usize)]| {
            for (s, n) in items {
                for _ in 0..*n {
                    let ambiguous = Self::ambiguous(reg, s);
                    match Self::raw_push(reg, s) {
                        Ok(idx) => {
                            reg.issued.push((idx, s.to_vec()));
                            reg.pushes.push(s.to_vec());
                            if let Err(e) = reg.twin_push(s, idx) {
                                err.borrow_mut().get_or_insert(e);
                            }
                        }
                        Err(p) if !ambiguous => {
                            err.borrow_mut().get_or_insert(format!("push({}) as item #{} panicked: {p}", show_bytes(s), reg.pushes.len()));
                        }
                        Err(_) => {}
                    }
                }
            }
        };
        match self.cfg.seed {
            0 => {}
            1 => {
                // first generation trained on "abc" (dominant) and "b"
                train(&mut self.pool[0], &[(b"abc", 3), (b"b", 1)]);
                self.seed_merge(1);
            }
            2 => {
                // second generation
                train(&mut self.pool[0], &[(b"abc", 3), (b"b", 1)]);
                self.seed_merge(1);
                let c = self.cur;
                train(&mut self.pool[c], &[(b"abc", 2), (b"xy", 3)]);
                self.seed_merge(1 << c);
            }
            3 | 4 | 5 => {
                // > 1024 distinct strings cross the heavy-hitter summary's compaction
                let n = 1500;
                let reg = &mut self.pool[0];
                for i in 0..n {
                    let s = match self.cfg.seed {
                        // 3: distinct strings share few first bytes; 4: all 256 first bytes occur; 5: as 3, two sources
                        4 => {
                            let mut v = vec![(i % 256) as u8];
                            v.extend(format!("-{i}").bytes());
                            v
                        }
                        _ => format!("k{i}").into_bytes(),
                    };
                    train(reg, &[(&s, 1), (b"dominant", 2)]);
                }
                if self.cfg.seed == 5 {
                    let mut second = Reg::new(R::default(), 0);
                    for i in 0..800 {
                        let s = format!("m{i}").into_bytes();
                        train(&mut second, &[(&s, 1), (b"dominant", 2)]);
                    }
                    self.pool.push(second);
                    self.seed_merge(0b11);
                } else {
                    self.seed_merge(1);
                }
            }
            6 => {
                // three generations; in the middle one an item is stored only as a dictionary code while
                // ~300 more frequent strings push it out of the next dictionary
                train(&mut self.pool[0], &[(b"\x01x", 3)]);
                self.seed_merge(1);
                let c = self.cur;
                train(&mut self.pool[c], &[(b"\x01x", 1)]);
                for i in 0..300 {
                    let s = format!("k{i}").into_bytes();
                    train(&mut self.pool[c], &[(&s, 2)]);
                }
                self.seed_merge(1 << c);
            }
            7 => {
                // dictionary entries totalling more than 65535 bytes
                for i in 0..80 {
                    let mut s = format!("{i:04}").into_bytes();
                    s.resize(1000, b'r');
                    train(&mut self.pool[0], &[(&s, 3)]);
                }
                // shorter, less frequent strings ranked after the big ones
                for i in 0..30 {
                    let s = format!("s{i:02}").into_bytes();
                    train(&mut self.pool[0], &[(&s, 2)]);
                }
                self.seed_merge(1);
            }
            8 => {
                // the heavy-hitter summary is compacted while more than 512 distinct strings have weight >= 2 and others less
                // phase 1: 400 strings twice and the dominating string 224 times fill the summary exactly
                // (1024 raw entries, 401 distinct: nothing is dropped); phase 2: 113 further strings twice
                // and 398 strings once force a compaction with inner[512] of weight 2 and lighter entries
                // behind it; afterwards the dominating string is pushed until it is > 1/2 of all pushes.
                let reg = &mut self.pool[0];
                for i in 0..400 {
                    let s = format!("w{i}").into_bytes();
                    train(reg, &[(&s, 2)]);
                }
                train(reg, &[(b"dominant", 224)]);
                for i in 400..513 {
                    let s = format!("w{i}").into_bytes();
                    train(reg, &[(&s, 2)]);
                }
                for i in 0..398 {
                    let s = format!("x{i}").into_bytes();
                    train(reg, &[(&s, 1)]);
                }
                train(reg, &[(b"dominant", 1500)]);
                self.seed_merge(1);
            }
            9 => {
                // two sources with 300 distinct strings each (three pushes each); a string both share is pushed
                // twice into each: below the 256 heaviest of either source, the most frequent over both
                let mut second = Reg::new(R::default(), 0);
                for i in 0..300 {
                    let (a, b) = (format!("a{i:03}").into_bytes(), format!("b{i:03}").into_bytes());
                    train(&mut self.pool[0], &[(&a, 3)]);
                    train(&mut second, &[(&b, 3)]);
                }
                train(&mut self.pool[0], &[(b"shared by both sources", 2)]);
                train(&mut second, &[(b"shared by both sources", 2)]);
                self.pool.push(second);
                self.seed_merge(0b11);
            }
            10 => {
                // a region with a past: trained, merged from, cleared; then more than 1024 pushes of more than 512
                // distinct strings, so that what the heavy-hitter summary keeps matters
                train(&mut self.pool[0], &[(b"old", 5), (b"older", 2)]);
                let r = &mut self.pool[0];
                r.r.clear();
                r.issued.clear();
                r.pushes.clear();
                r.twin = Some(R::default());
                for i in 0..1100 {
                    let s = format!("k{i:04}").into_bytes();
                    train(&mut self.pool[0], &[(&s, 1)]);
                }
                for i in 0..200 {
                    let s = format!("k{i:04}").into_bytes();
                    train(&mut self.pool[0], &[(&s, 1)]);
                }
                for i in 600..800 {
                    let s = format!("k{i:04}").into_bytes();
                    train(&mut self.pool[0], &[(&s, 2)]);
                }
                self.seed_merge(1);
            }
            _ => {}
        }
        if self.seed_error.is_none() {
            self.seed_error = err.into_inner();
        }
        self.merges = 0;
        self.tags.clear();
    }
}

fn srcs_len(mask: u32) -> u32 {
    mask.count_ones()
}

struct Sources {
    counts: Vec<(Vec<u8>, usize)>,
    total: usize,
    first_bytes: usize,
    /// no heavy-hitter summary involved can have been compacted (fewer than 1024 pushes per source and
    /// fewer than 1024 summary entries over all sources): the statistics are exact counts
    exact: bool,
}

pub fn show_bytes(s: &[u8]) -> String {
    if s.len() > 24 {
        return format!("b\"{}…\" ({} bytes)", s[..16].escape_ascii(), s.len());
    }
    format!("b\"{}\"", s.escape_ascii())
}

impl Machine for DictMachine {
    fn name(&self) -> String {
        format!("dict/seed{}/{:?}", self.cfg.seed, self.cfg.alphabet)
    }
    fn reset(&mut self) {
        self.pool = vec![Reg::new(R::default(), 0)];
        self.cur = 0;
        self.merges = 0;
        self.seed_error = None;
        self.seed();
    }
    fn enabled(&self) -> Vec<OpId> {
        let mut v = Vec::new();
        match self.cfg.alphabet {
            Alphabet::Relative => {
                for k in 0..(FIXED.len() + N_REL + 1) as u32 {
                    if self.value(OP_PUSH + k).is_some() {
                        // skip relative strings that coincide with an earlier alphabet entry
                        let val = self.value(OP_PUSH + k).unwrap();
                        let dup = (0..k).any(|j| self.value(OP_PUSH + j).as_ref() == Some(&val));
                        if !dup {
                            v.push(OP_PUSH + k);
                        }
                    }
                }
            }
            Alphabet::AllBytes => v.extend(OP_PUSH..OP_PUSH + 512),
        }
        v.push(OP_CLEAR);
        for k in 0..self.pool.len() as u32 {
            if k as usize != self.cur {
                v.push(OP_SWITCH + k);
            }
        }
        if self.merges < self.cfg.max_merges {
            let n = self.pool.len() as u32;
            for mask in 0..(1u32 << n) {
                v.push(OP_MERGE + mask);
            }
        }
        v
    }
    fn describe(&self, op: OpId) -> String {
        match op {
            OP_CLEAR => format!("clear() region #{}", self.cur),
            o if (OP_SWITCH..OP_MERGE).contains(&o) => format!("switch to region #{}", o - OP_SWITCH),
            o if o >= OP_MERGE => {
                let mask = o - OP_MERGE;
                let names: Vec<String> = (0..3).filter(|i| mask & (1 << i) != 0).map(|i| format!("#{i}")).collect();
                format!("merge_regions([{}]) -> new current region", names.join(", "))
            }
            o => format!("push({}) into region #{} (generation {})", show_bytes(&self.value(o).unwrap_or_default()), self.cur, self.pool[self.cur].gen),
        }
    }
    fn step(&mut self, op: OpId) -> Step {
        if let Some(e) = &self.seed_error {
            return Step::Violation(format!("while building the start state (seed {}): {e}", self.cfg.seed));
        }
        let what = self.describe(op);
        let r = match op {
            OP_CLEAR => {
                let reg = &mut self.pool[self.cur];
                let r = &mut reg.r;
                if let Err(p) = guard(|| r.clear()) {
                    return Step::Violation(format!("clear() panicked: {p}"));
                }
                reg.issued.clear();
                reg.pushes.clear();
                reg.sources = None;
                reg.gen = 0;
                reg.twin = Some(R::default());
                Step::Ok
            }
            o if (OP_SWITCH..OP_MERGE).contains(&o) => {
                self.cur = (o - OP_SWITCH) as usize;
                Step::Ok
            }
            o if o >= OP_MERGE => self.merge(o - OP_MERGE),
            o => match self.value(o) {
                Some(s) => self.push(&s),
                None => return Step::Refused("alphabet entry not available in this state".into()),
            },
        };
        match r {
            Step::Ok => {}
            other => return other,
        }
        match self.recheck(&what) {
            Ok(()) => Step::Ok,
            Err(e) => Step::Violation(e),
        }
    }
    fn fingerprint(&self) -> Option<String> {
        let mut s = format!("cur={} merges={}|", self.cur, self.merges);
        for reg in &self.pool {
            s.push_str(&format!("{:?}|{:?}|{}|", reg.r, reg.issued, reg.gen));
            if let Some(src) = &reg.sources {
                s.push_str(&format!("{:?}/{}/{}", src.counts, src.total, src.first_bytes));
            }
            s.push_str(&format!("{:?}#", reg.pushes));
        }
        Some(s)
    }
    fn drain_tags(&mut self) -> Vec<String> {
        std::mem::take(&mut self.tags)
    }
}
