//! The typed catalogue of region compositions. Every entry lists the input forms the type checker
//! admits for it (the inventory of `impl Push<..>` blocks in src/ is the checklist).

use crate::spec::forms as f;
use crate::spec::*;
use flatcontainer::impls::codec::{CodecRegion, DictionaryCodec};
use flatcontainer::impls::huffman_container::HuffmanContainer;
use flatcontainer::impls::index::{IndexList, IndexOptimized};
use flatcontainer::{IntoOwned, Push, Region, ReserveItems};
use std::marker::PhantomData;
use std::num::Wrapping;
use std::time::Duration;

pub type IL = IndexList<Vec<u32>, Vec<u64>>;
pub type IO = IndexOptimized;
pub type VU = Vec<usize>;

// ----- coded terminals -----------------------------------------------------------------------

pub struct Huff<B>(PhantomData<B>);
impl<B: Val + Ord> Spec for Huff<B> {
    type V = Vec<B>;
    type R = HuffmanContainer<B>;
    type M = ();
    const MODELLED: bool = false;
    fn m_push(_m: &mut (), _v: &Self::V) -> MIdx {
        MIdx::Opaque
    }
    fn m_clear(_m: &mut ()) {}
    fn m_merged(_s: &[&()]) {}
    fn m_layout(_m: &(), _out: &mut Vec<Slot>) {}
    fn name() -> String {
        format!("HuffmanContainer<{}>", short_type::<B>())
    }
    fn canon_push(r: &mut Self::R, v: &Vec<B>) -> (usize, usize) {
        r.push(v.clone())
    }
    fn check<'a>(item: RI<'a, Self>, v: &Vec<B>) -> Result<(), String> {
        // bounded walk first: a defective decoder may never terminate
        let mut got: Vec<B> = Vec::new();
        match item.decode() {
            Ok(it) => {
                for s in it.take(v.len() + 1) {
                    got.push(s.clone());
                }
            }
            Err(slice) => got.extend(slice.iter().take(v.len() + 1).cloned()),
        }
        if !got.same(v) {
            return Err(format!("decodes to {}, pushed {}", show(&got), show(v)));
        }
        let dbg = format!("{:?}", item);
        if dbg != format!("{:?}", v) {
            return Err(format!("Debug renders {dbg}, pushed {}", show(v)));
        }
        let o = item.into_owned();
        if !o.same(v) {
            return Err(format!("into_owned gives {}, pushed {}", show(&o), show(v)));
        }
        Ok(())
    }
}

pub struct Dict<B>(PhantomData<B>);
impl<B> Spec for Dict<B>
where
    B: Spec<V = Vec<u8>>,
    for<'a> B::R: Region<ReadItem<'a> = &'a [u8]> + Push<&'a [u8]>,
{
    type V = Vec<u8>;
    type R = CodecRegion<DictionaryCodec, B::R>;
    type M = ();
    const MODELLED: bool = false;
    fn m_push(_m: &mut (), _v: &Self::V) -> MIdx {
        MIdx::Opaque
    }
    fn m_clear(_m: &mut ()) {}
    fn m_merged(_s: &[&()]) {}
    fn m_layout(_m: &(), _out: &mut Vec<Slot>) {}
    fn name() -> String {
        if B::name() == "OwnedRegion<u8>" {
            "CodecRegion<DictionaryCodec>".into()
        } else {
            format!("CodecRegion<DictionaryCodec, {}>", B::name())
        }
    }
    fn canon_push(r: &mut Self::R, v: &Vec<u8>) -> Idx<Self> {
        r.push(v.as_slice())
    }
    fn check<'a>(item: &'a [u8], v: &Vec<u8>) -> Result<(), String> {
        if item != v.as_slice() {
            return Err(format!("read bytes {}, pushed {}", show(&item), show(v)));
        }
        if item.len() != v.len() || item.is_empty() != v.is_empty() {
            return Err("len/is_empty disagree".into());
        }
        let o: Vec<u8> = IntoOwned::into_owned(item);
        if &o != v {
            return Err(format!("into_owned gives {}, pushed {}", show(&o), show(v)));
        }
        Ok(())
    }
}

/// `ColumnsRegion<CodecRegion<DictionaryCodec>>`: the codec region has no owned input form, so the generic
/// columns spec does not apply; rows are pushed as vectors of byte slices.
pub struct ColsDict;
impl Spec for ColsDict {
    type V = Vec<Vec<u8>>;
    type R = flatcontainer::ColumnsRegion<CodecRegion<DictionaryCodec>, IO>;
    type M = ();
    const MODELLED: bool = false;
    fn m_push(_m: &mut (), _v: &Self::V) -> MIdx {
        MIdx::Opaque
    }
    fn m_clear(_m: &mut ()) {}
    fn m_merged(_s: &[&()]) {}
    fn m_layout(_m: &(), _out: &mut Vec<Slot>) {}
    fn name() -> String {
        "ColumnsRegion<CodecRegion<DictionaryCodec>, IndexOptimized>".into()
    }
    fn canon_push(r: &mut Self::R, v: &Self::V) -> usize {
        r.push(v.iter().map(|c| c.as_slice()).collect::<Vec<&[u8]>>())
    }
    fn check<'a>(item: RI<'a, Self>, v: &Self::V) -> Result<(), String> {
        if item.len() != v.len() || item.is_empty() != v.is_empty() {
            return Err(format!("row len() = {}, pushed {} cells", item.len(), v.len()));
        }
        for (i, x) in v.iter().enumerate() {
            if item.get(i) != x.as_slice() {
                return Err(format!("get({i}) reads {}, pushed {}", show(&item.get(i)), show(x)));
            }
        }
        let got: Vec<Vec<u8>> = item.iter().take(v.len() + 1).map(|c| c.to_vec()).collect();
        if &got != v {
            return Err(format!("iter() yields {}, pushed {}", show(&got), show(v)));
        }
        let o = item.into_owned();
        if &o != v {
            return Err(format!("into_owned gives {}, pushed {}", show(&o), show(v)));
        }
        Ok(())
    }
}

/// `ColumnsRegion<HuffmanContainer<u8>>`: rows of symbol strings, each column Huffman coded after a merge.
pub struct ColsHuff;
impl Spec for ColsHuff {
    type V = Vec<Vec<u8>>;
    type R = flatcontainer::ColumnsRegion<HuffmanContainer<u8>, IO>;
    type M = ();
    const MODELLED: bool = false;
    fn m_push(_m: &mut (), _v: &Self::V) -> MIdx {
        MIdx::Opaque
    }
    fn m_clear(_m: &mut ()) {}
    fn m_merged(_s: &[&()]) {}
    fn m_layout(_m: &(), _out: &mut Vec<Slot>) {}
    fn name() -> String {
        "ColumnsRegion<HuffmanContainer<u8>, IndexOptimized>".into()
    }
    fn canon_push(r: &mut Self::R, v: &Self::V) -> usize {
        r.push(v.iter().map(|c| c.as_slice()).collect::<Vec<&[u8]>>())
    }
    fn check<'a>(item: RI<'a, Self>, v: &Self::V) -> Result<(), String> {
        if item.len() != v.len() || item.is_empty() != v.is_empty() {
            return Err(format!("row len() = {}, pushed {} cells", item.len(), v.len()));
        }
        for (i, x) in v.iter().enumerate() {
            Huff::<u8>::check(item.get(i), x).map_err(|e| format!("get({i}): {e}"))?;
        }
        let got = item.iter().take(v.len() + 1).count();
        if got != v.len() {
            return Err(format!("iter() yields {got} cells, pushed {}", v.len()));
        }
        Ok(())
    }
}

// ----- value alphabets -----------------------------------------------------------------------

pub fn strings() -> Vec<String> {
    ["", "a", "é", "ü", "日", "𝄞", "a\u{301}", "\0", "aé"].iter().map(|s| s.to_string()).collect()
}
pub fn strings_small() -> Vec<String> {
    ["", "a", "é", "aé"].iter().map(|s| s.to_string()).collect()
}
pub fn long_string() -> String {
    "aé日𝄞".repeat(30)
}
pub fn bytes_small() -> Vec<Vec<u8>> {
    vec![vec![], vec![1], vec![1, 2], vec![2]]
}
pub fn bytes_all() -> Vec<Vec<u8>> {
    vec![vec![], vec![1], vec![1, 2], vec![2], vec![1, 2, 3]]
}
pub fn bytes_large() -> Vec<Vec<u8>> {
    vec![(0..300).map(|i| (i % 251) as u8).collect(), (0..70_000).map(|i| (i % 253) as u8).collect()]
}
fn nan2() -> f64 {
    f64::from_bits(0x7ff8_0000_0000_0001)
}

// ----- entries -------------------------------------------------------------------------------

macro_rules! mirror_entry {
    ($t:ty, $vals:expr) => {{
        type S = Mirror<$t>;
        type R = <S as Spec>::R;
        Entry::<S>::new($vals)
            .form("T", f::owned::<R, $t>)
            .form("&T", f::by_ref::<R, $t>)
            .form("&&T", f::by_ref_ref::<R, $t>)
            .rform("reserve_items(T)", f::res_owned::<R, $t>)
            .rform("reserve_items(&T)", f::res_refs::<R, $t>)
            .cloneable()
            .serde()
            .debug()
            .flags("plain")
    }};
}

macro_rules! owned_entry {
    ($t:ty, $vals:expr, $flags:expr) => {{
        type S = Owned<$t>;
        type R = <S as Spec>::R;
        Entry::<S>::new($vals)
            .form("Vec<T>", f::owned::<R, Vec<$t>>)
            .form("&Vec<T>", f::by_ref::<R, Vec<$t>>)
            .form("&[T]", f::slice::<R, $t>)
            .form("&&[T]", f::ref_slice::<R, $t>)
            .form("[T; N]", f::array::<R, $t>)
            .form("&[T; N]", f::ref_array::<R, $t>)
            .form("&&[T; N]", f::ref_ref_array::<R, $t>)
            .form("PushIter<vec::IntoIter<T>>", f::iter::<R, $t>)
            .form("PushIter<Vec<T>>", f::iter_vec::<R, $t>)
            .form("Vec<T> with spare capacity", f::owned_spare::<R, $t>)
            .rform("reserve_items(&Vec<T>)", f::res_refs::<R, Vec<$t>>)
            .rform("reserve_items(&[T])", f::res_slice::<R, $t>)
            .rform("reserve_items(PushIter<Vec<T>>)", f::res_iter::<R, $t>)
            .rform_some("reserve_items(&[T; 2])", f::res_array2::<R, $t>, |v| v.len() == 2)
            .cloneable()
            .serde()
            .flags($flags)
    }};
}

/// forms shared by every region that takes strings the way `StringRegion` does
macro_rules! string_forms {
    ($e:expr, $R:ty) => {
        $e.form("String", f::owned::<$R, String>)
            .form("&String", f::by_ref::<$R, String>)
            .form("&str", f::str_::<$R>)
            .form("&&str", f::ref_str::<$R>)
    };
}
macro_rules! string_forms_collapse {
    ($e:expr, $R:ty) => {
        $e.form("String", f::owned::<$R, String>)
            .form("&String", f::by_ref::<$R, String>)
            .form("&str", f::str_::<$R>)
    };
}
macro_rules! string_rforms {
    ($e:expr, $R:ty) => {
        $e.rform("reserve_items(&String)", f::res_refs::<$R, String>)
            .rform("reserve_items(&str)", f::res_str::<$R>)
            .rform("reserve_items(&&str)", |r: &mut $R, b: &[String]| {
                let t: Vec<&str> = b.iter().map(|s| s.as_str()).collect();
                ReserveItems::reserve_items(r, t.iter())
            })
    };
}
macro_rules! bytes_forms {
    ($e:expr, $R:ty) => {
        $e.form("Vec<u8>", f::owned::<$R, Vec<u8>>)
            .form("&Vec<u8>", f::by_ref::<$R, Vec<u8>>)
            .form("&[u8]", f::slice::<$R, u8>)
            .form("&&[u8]", f::ref_slice::<$R, u8>)
            .form("[u8; N]", f::array::<$R, u8>)
            .form("&[u8; N]", f::ref_array::<$R, u8>)
            .form("&&[u8; N]", f::ref_ref_array::<$R, u8>)
            .form("PushIter<vec::IntoIter<u8>>", f::iter::<$R, u8>)
    };
}
/// forms of a slice-like region over element input type X (inner region gets X / &X)
macro_rules! slice_forms {
    ($e:expr, $S:ty, $R:ty, $X:ty) => {
        $e.form("Vec<X>", f::owned::<$R, Vec<$X>>)
            .form("&Vec<X>", f::by_ref::<$R, Vec<$X>>)
            .form("&&Vec<X>", f::by_ref_ref::<$R, Vec<$X>>)
            .form("&[X]", f::slice::<$R, $X>)
            .form("[X; N]", f::array::<$R, $X>)
            .form("&[X; N]", f::ref_array::<$R, $X>)
            .form("&&[X; N]", f::ref_ref_array::<$R, $X>)
            .form("Vec<&X>", f::vec_of_refs::<$R, $X>)
            .form("Vec<X> with spare capacity", f::owned_spare::<$R, $X>)
            .form("ReadSlice (region-backed)", f::read_item::<$S>)
            .form("ReadSlice (borrowed from owned)", f::borrowed_item::<$S>)
    };
}
macro_rules! slice_rforms {
    ($e:expr, $S:ty, $R:ty, $X:ty) => {
        $e.rform("reserve_items(&Vec<X>)", f::res_refs::<$R, Vec<$X>>)
            .rform("reserve_items(&[X])", f::res_slice::<$R, $X>)
            .rform("reserve_items(ReadSlice)", f::res_read_items::<$S>)
            .rform_some("reserve_items(&[X; 2])", f::res_array2::<$R, $X>, |v| v.len() == 2)
    };
}
macro_rules! columns_forms {
    ($e:expr, $S:ty, $R:ty, $X:ty, $I:ty) => {
        $e.form("Vec<X>", f::owned::<$R, Vec<$X>>)
            .form("&Vec<X>", f::by_ref::<$R, Vec<$X>>)
            .form("&[X]", f::slice::<$R, $X>)
            .form("[X; N]", |r: &mut $R, v: &Vec<$X>| match v.as_slice() {
                [] => r.push([] as [$X; 0]),
                [a] => r.push([a.clone()]),
                [a, b] => r.push([a.clone(), b.clone()]),
                [a, b, c] => r.push([a.clone(), b.clone(), c.clone()]),
                _ => r.push(v.clone()),
            })
            .form("&[X; N]", |r: &mut $R, v: &Vec<$X>| match v.len() {
                0 => r.push(<&[$X; 0]>::try_from(v.as_slice()).unwrap()),
                1 => r.push(<&[$X; 1]>::try_from(v.as_slice()).unwrap()),
                2 => r.push(<&[$X; 2]>::try_from(v.as_slice()).unwrap()),
                3 => r.push(<&[$X; 3]>::try_from(v.as_slice()).unwrap()),
                _ => r.push(v.as_slice()),
            })
            .form("PushIter<Vec<X>>", f::iter_vec::<$R, $X>)
            .form("PushIter<vec::IntoIter<X>>", f::iter::<$R, $X>)
            .form("ReadColumns (region-backed)", f::read_item::<$S>)
            .form("ReadColumns (borrowed from owned)", f::borrowed_item::<$S>)
            .form("PushIter<ReadSliceIter> (iterator over a slice item of another region)", |r: &mut $R, v: &Vec<$X>| {
                let mut donor = <flatcontainer::SliceRegion<<$I as Spec>::R>>::default();
                let _ = donor.push(v.clone());
                let i = donor.push(v.clone());
                r.push(flatcontainer::PushIter(donor.index(i).iter()))
            })
    };
}

pub fn rows_u8() -> Vec<Vec<u8>> {
    vec![vec![], vec![1], vec![2, 3], vec![1, 2, 3]]
}
pub fn rows_str() -> Vec<Vec<String>> {
    let s = |x: &[&str]| x.iter().map(|s| s.to_string()).collect::<Vec<_>>();
    vec![s(&[]), s(&["a"]), s(&["é", ""]), s(&["a", "a", "日"])]
}
pub fn rows_str_large() -> Vec<Vec<String>> {
    vec![strings(), vec![long_string(), String::new(), long_string()], (0..300).map(|i| format!("s{i}")).collect()]
}

pub fn visit_all<Vz: Visitor>(v: &mut Vz) {
    // ---- terminals
    v.visit(mirror_entry!(u8, vec![0, 1, 255, 7]));
    v.visit(mirror_entry!(u64, vec![0, 1, u64::MAX]));
    v.visit(mirror_entry!(i128, vec![0, -1, i128::MIN, i128::MAX]));
    v.visit(mirror_entry!(usize, vec![0, 1, usize::MAX]));
    v.visit(mirror_entry!(f64, vec![0.0, -0.0, f64::INFINITY, f64::NAN, nan2(), 1.5]));
    v.visit(mirror_entry!(char, vec!['a', '\0', 'é', '\u{10FFFF}']));
    v.visit(mirror_entry!(bool, vec![false, true]));
    v.visit(mirror_entry!((), vec![()]));
    v.visit(mirror_entry!(Duration, vec![Duration::ZERO, Duration::new(0, 1), Duration::MAX]));
    v.visit(mirror_entry!(Wrapping<i64>, vec![Wrapping(0), Wrapping(i64::MIN), Wrapping(i64::MAX)]));

    v.visit(owned_entry!(u8, bytes_small(), "vector plain").large({
        let mut l = bytes_large();
        l.push(vec![1, 2, 3]);
        l
    }).debug());
    v.visit(owned_entry!(f64, vec![vec![], vec![0.0], vec![-0.0, f64::NAN], vec![nan2()]], "vector plain").debug());
    v.visit(owned_entry!(String, vec![vec![], vec!["a".to_string()], vec!["é".to_string(), String::new()]], "vector strings").debug());
    v.visit(
        owned_entry!((), vec![vec![], vec![()], vec![(); u32::MAX as usize], vec![(); 1usize << 62]], "vector plain zst")
            .large(vec![vec![(); 3], vec![(); 1usize << 32]]),
    );

    {
        type S = Str<Owned<u8>>;
        type R = <S as Spec>::R;
        let e = Entry::<S>::new(strings_small()).large({
            let mut l = strings();
            l.push(long_string());
            l
        });
        let e = string_forms!(e, R);
        let e = string_rforms!(e, R);
        v.visit(e.ordered().cloneable().serde().debug().flags("vector plain strings"));
    }
    {
        type S = VecRegion<u8>;
        type R = Vec<u8>;
        v.visit(
            Entry::<S>::new(vec![0, 1, 255])
                .form("T", f::owned::<R, u8>)
                .form("&T", f::by_ref::<R, u8>)
                .form("&&T", f::by_ref_ref::<R, u8>)
                .rform("reserve_items(&T)", f::res_refs::<R, u8>)
                .rform("reserve_items(T)", f::res_owned::<R, u8>)
                .cloneable()
                .serde()
                .debug()
                .flags("vector plain dense"),
        );
    }
    {
        type S = VecRegion<String>;
        type R = Vec<String>;
        v.visit(
            Entry::<S>::new(strings_small())
                .form("T", f::owned::<R, String>)
                .form("&T", f::by_ref::<R, String>)
                .form("&&T", f::by_ref_ref::<R, String>)
                .rform("reserve_items(&T)", f::res_refs::<R, String>)
                .cloneable()
                .serde()
                .debug()
                .flags("vector strings dense"),
        );
    }

    // ---- consecutive index pairs
    macro_rules! consec_bytes {
        ($O:ty) => {{
            type S = Consec<Owned<u8>, $O>;
            type R = <S as Spec>::R;
            let e = Entry::<S>::new(bytes_small()).large(bytes_large());
            let e = bytes_forms!(e, R);
            v.visit(
                e.rform("reserve_items(&Vec<T>)", f::res_refs::<R, Vec<u8>>)
                    .rform("reserve_items(&[T])", f::res_slice::<R, u8>)
                    .cloneable()
                    .serde()
                    .debug()
                    .flags("dense plain"),
            );
        }};
    }
    consec_bytes!(IO);
    consec_bytes!(VU);
    consec_bytes!(IL);
    macro_rules! consec_zst {
        ($O:ty) => {{
            type S = Consec<Owned<()>, $O>;
            type R = <S as Spec>::R;
            v.visit(
                Entry::<S>::new(vec![vec![], vec![()], vec![(); u32::MAX as usize], vec![(); 1usize << 62], vec![(); u32::MAX as usize - 1], vec![(); 3], vec![(); 1usize << 32]])
                    .form("Vec<T>", f::owned::<R, Vec<()>>)
                    .form("&Vec<T>", f::by_ref::<R, Vec<()>>)
                    .form("&[T]", f::slice::<R, ()>)
                    .cloneable()
                    .serde()
                    .flags("dense plain zst"),
            );
        }};
    }
    consec_zst!(IO);
    consec_zst!(VU);
    consec_zst!(IL);
    macro_rules! consec_string {
        ($O:ty) => {{
            type S = Consec<Str<Owned<u8>>, $O>;
            type R = <S as Spec>::R;
            let e = Entry::<S>::new(strings_small()).large(strings());
            let e = string_forms!(e, R);
            let e = string_rforms!(e, R);
            v.visit(e.cloneable().serde().debug().flags("dense strings plain"));
        }};
    }
    consec_string!(IO);
    consec_string!(VU);
    consec_string!(IL);
    {
        type S = Consec<Slice<Mirror<u8>, Vec<u8>>, IO>;
        type R = <S as Spec>::R;
        let e = Entry::<S>::new(bytes_small()).large(bytes_large());
        v.visit(
            e.form("Vec<X>", f::owned::<R, Vec<u8>>)
                .form("&Vec<X>", f::by_ref::<R, Vec<u8>>)
                .form("&&Vec<X>", f::by_ref_ref::<R, Vec<u8>>)
                .form("&[X]", f::slice::<R, u8>)
                .form("[X; N]", f::array::<R, u8>)
                .form("&[X; N]", f::ref_array::<R, u8>)
                .form("Vec<&X>", f::vec_of_refs::<R, u8>)
                .form("ReadSlice (region-backed)", f::read_item::<S>)
                .form("ReadSlice (borrowed from owned)", f::borrowed_item::<S>)
                .rform("reserve_items(&Vec<X>)", f::res_refs::<R, Vec<u8>>)
                .cloneable()
                .serde()
                .debug()
                .flags("dense plain"),
        );
    }

    // ---- collapse sequence
    {
        type S = Collapse<Str<Owned<u8>>>;
        type R = <S as Spec>::R;
        let e = Entry::<S>::new(strings_small()).large(strings());
        let e = string_forms_collapse!(e, R);
        v.visit(e.cloneable().serde().debug().flags("collapse strings plain"));
    }
    {
        type S = Collapse<Owned<u8>>;
        type R = <S as Spec>::R;
        v.visit(
            Entry::<S>::new(bytes_small())
                .large(bytes_large())
                .form("Vec<u8>", f::owned::<R, Vec<u8>>)
                .form("&Vec<u8>", f::by_ref::<R, Vec<u8>>)
                .form("&[u8]", f::slice::<R, u8>)
                .form("[u8; N]", f::array::<R, u8>)
                .form("&[u8; N]", f::ref_array::<R, u8>)
                .cloneable()
                .serde()
                .debug()
                .flags("collapse plain"),
        );
    }
    {
        // -0.0 is deliberately absent: it is == 0.0, so a collapsing region may return the index of 0.0
        type S = Collapse<Owned<f64>>;
        type R = <S as Spec>::R;
        v.visit(
            Entry::<S>::new(vec![vec![], vec![1.5], vec![f64::NAN], vec![1.5, 2.5]])
                .form("Vec<f64>", f::owned::<R, Vec<f64>>)
                .form("&Vec<f64>", f::by_ref::<R, Vec<f64>>)
                .form("&[f64]", f::slice::<R, f64>)
                .cloneable()
                .serde()
                .debug()
                .flags("collapse plain"),
        );
    }
    {
        type S = Collapse<Mirror<f64>>;
        type R = <S as Spec>::R;
        v.visit(
            Entry::<S>::new(vec![0.0, 1.5, f64::NAN, f64::INFINITY])
                .form("f64", f::owned::<R, f64>)
                .cloneable()
                .serde()
                .debug()
                .flags("collapse plain"),
        );
    }
    {
        type S = Collapse<Consec<Str<Owned<u8>>, IO>>;
        type R = <S as Spec>::R;
        let e = Entry::<S>::new(strings_small()).large(strings());
        let e = string_forms_collapse!(e, R);
        v.visit(e.cloneable().serde().debug().flags("collapse strings plain"));
    }

    {
        // deduplication over consecutive pairs of zero-sized elements: offsets beyond u32::MAX below a
        // collapsing region
        type S = Collapse<Consec<Owned<()>, IO>>;
        type R = <S as Spec>::R;
        v.visit(
            Entry::<S>::new(vec![vec![], vec![()], vec![(); u32::MAX as usize], vec![(); 1usize << 62], vec![(); u32::MAX as usize - 1]])
                .form("Vec<T>", f::owned::<R, Vec<()>>)
                .form("&Vec<T>", f::by_ref::<R, Vec<()>>)
                .cloneable()
                .serde()
                .flags("collapse plain zst"),
        );
    }

    // ---- string regions over other byte regions
    {
        type S = Str<Consec<Owned<u8>, IO>>;
        type R = <S as Spec>::R;
        let e = Entry::<S>::new(strings_small()).large(strings());
        let e = string_forms!(e, R);
        let e = string_rforms!(e, R);
        v.visit(e.cloneable().serde().debug().flags("dense strings plain"));
    }
    {
        type S = Str<Collapse<Owned<u8>>>;
        type R = <S as Spec>::R;
        let e = Entry::<S>::new(strings_small()).large(strings());
        let e = string_forms!(e, R);
        v.visit(e.cloneable().serde().debug().flags("collapse strings plain"));
    }
    {
        type S = Str<Dict<Owned<u8>>>;
        type R = <S as Spec>::R;
        let e = Entry::<S>::new(strings_small()).large({
            // strings whose first byte is a dictionary tag once a dictionary exists
            let mut l = strings();
            l.push("\0x".to_string());
            l.push("\u{1}b".to_string());
            l
        });
        let e = string_forms!(e, R);
        v.visit(e.debug().flags("strings dictionary"));
    }

    // ---- fan-out
    {
        type S = Opt<Str<Owned<u8>>>;
        type R = <S as Spec>::R;
        let s = |x: &str| Some(x.to_string());
        v.visit(
            Entry::<S>::new(vec![None, s(""), s("a"), s("é")])
                .large(vec![s(&long_string()), s("𝄞")])
                .form("Option<String>", f::owned::<R, Option<String>>)
                .form("&Option<String>", f::by_ref::<R, Option<String>>)
                .form("Option<&String>", f::opt_as_ref::<R, String>)
                .form("Option<&str>", f::opt_str::<R>)
                .form("&Option<&str>", |r: &mut R, v: &Option<String>| {
                    let t = v.as_deref();
                    r.push(&t)
                })
                .rform("reserve_items(&Option<String>)", f::res_refs::<R, Option<String>>)
                .rform("reserve_items(Option<&str>)", |r: &mut R, b: &[Option<String>]| {
                    ReserveItems::reserve_items(r, b.iter().map(|o| o.as_deref()))
                })
                .cloneable()
                .serde()
                .debug()
                .flags("vector plain strings"),
        );
    }
    {
        type S = Opt<Mirror<u8>>;
        type R = <S as Spec>::R;
        v.visit(
            Entry::<S>::new(vec![None, Some(0), Some(255)])
                .form("Option<u8>", f::owned::<R, Option<u8>>)
                .form("&Option<u8>", f::by_ref::<R, Option<u8>>)
                .form("Option<&u8>", f::opt_as_ref::<R, u8>)
                .rform("reserve_items(Option<u8>)", f::res_owned::<R, Option<u8>>)
                .rform("reserve_items(&Option<u8>)", f::res_refs::<R, Option<u8>>)
                .cloneable()
                .serde()
                .debug()
                .flags("plain"),
        );
    }
    {
        type S = Res<Str<Owned<u8>>, Mirror<u16>>;
        type R = <S as Spec>::R;
        type V = Result<String, u16>;
        v.visit(
            Entry::<S>::new(vec![Ok(String::new()), Err(0), Ok("é".to_string()), Err(u16::MAX)])
                .large(vec![Ok(long_string())])
                .form("Result<String, u16>", f::owned::<R, V>)
                .form("&Result<String, u16>", f::by_ref::<R, V>)
                .form("Result<&String, &u16>", f::res_as_ref::<R, String, u16>)
                .form("Result<&str, u16>", |r: &mut R, v: &V| r.push(v.as_ref().map(|s| s.as_str()).map_err(|e| *e)))
                .rform("reserve_items(&Result<String, u16>)", f::res_refs::<R, V>)
                .rform("reserve_items(Result<&str, u16>)", |r: &mut R, b: &[V]| {
                    ReserveItems::reserve_items(r, b.iter().map(|v| v.as_ref().map(|s| s.as_str()).map_err(|e| *e)))
                })
                .cloneable()
                .serde()
                .debug()
                .flags("vector plain strings"),
        );
    }
    {
        type S = Res<Owned<u8>, Str<Owned<u8>>>;
        type R = <S as Spec>::R;
        type V = Result<Vec<u8>, String>;
        v.visit(
            Entry::<S>::new(vec![Ok(vec![]), Err(String::new()), Ok(vec![1, 2]), Err("é".to_string())])
                .form("Result<Vec<u8>, String>", f::owned::<R, V>)
                .form("&Result<Vec<u8>, String>", f::by_ref::<R, V>)
                .form("Result<&Vec<u8>, &String>", f::res_as_ref::<R, Vec<u8>, String>)
                .form("Result<&[u8], &str>", |r: &mut R, v: &V| r.push(v.as_ref().map(|s| s.as_slice()).map_err(|e| e.as_str())))
                .rform("reserve_items(&Result<Vec<u8>, String>)", f::res_refs::<R, V>)
                .cloneable()
                .serde()
                .debug()
                .flags("vector plain strings"),
        );
    }
    {
        // both sides keep their offsets in stride-compressed containers: a side that has only seen empty items
        // (or nothing) occupies no heap at all, yet is not in its default state
        type S = Res<Consec<Owned<u8>, IO>, Consec<Str<Owned<u8>>, IO>>;
        type R = <S as Spec>::R;
        type V = Result<Vec<u8>, String>;
        v.visit(
            Entry::<S>::new(vec![Ok(vec![]), Err(String::new()), Ok(vec![1, 2]), Err("é".to_string())])
                .form("Result<Vec<u8>, String>", f::owned::<R, V>)
                .form("&Result<Vec<u8>, String>", f::by_ref::<R, V>)
                .form("Result<&Vec<u8>, &String>", f::res_as_ref::<R, Vec<u8>, String>)
                .form("Result<&[u8], &str>", |r: &mut R, v: &V| r.push(v.as_ref().map(|s| s.as_slice()).map_err(|e| e.as_str())))
                .rform("reserve_items(&Result<Vec<u8>, String>)", f::res_refs::<R, V>)
                .cloneable()
                .serde()
                .debug()
                .flags("plain strings"),
        );
    }
    {
        type S = Tup2<Mirror<u64>, Str<Owned<u8>>>;
        type R = <S as Spec>::R;
        type V = (u64, String);
        v.visit(
            Entry::<S>::new(vec![(0, String::new()), (u64::MAX, "a".to_string()), (1, "é".to_string())])
                .large(vec![(7, long_string())])
                .form("(u64, String)", f::owned::<R, V>)
                .form("&(u64, String)", f::by_ref::<R, V>)
                .form("(&u64, &String)", f::tup2_refs::<R, u64, String>)
                .form("(u64, &str)", |r: &mut R, v: &V| r.push((v.0, v.1.as_str())))
                .form("(&&u64, &&str)", |r: &mut R, v: &V| r.push((&&v.0, &v.1.as_str())))
                .rform("reserve_items(&(u64, String))", f::res_refs::<R, V>)
                .rform("reserve_items((u64, &str))", |r: &mut R, b: &[V]| {
                    ReserveItems::reserve_items(r, b.iter().map(|v| (v.0, v.1.as_str())))
                })
                .cloneable()
                .serde()
                .debug()
                .flags("vector plain strings"),
        );
    }
    {
        type S = Tup3<Mirror<u8>, Collapse<Owned<u8>>, Collapse<Str<Owned<u8>>>>;
        type R = <S as Spec>::R;
        type V = (u8, Vec<u8>, String);
        v.visit(
            Entry::<S>::new(vec![(0, vec![], String::new()), (1, vec![1], "a".to_string()), (1, vec![1], "é".to_string()), (2, vec![2], "a".to_string())])
                .form("(u8, Vec<u8>, String)", f::owned::<R, V>)
                .form("&(u8, Vec<u8>, String)", f::by_ref::<R, V>)
                .form("(&u8, &Vec<u8>, &String)", f::tup3_refs::<R, u8, Vec<u8>, String>)
                .form("(u8, &[u8], &str)", |r: &mut R, v: &V| r.push((v.0, v.1.as_slice(), v.2.as_str())))
                .cloneable()
                .serde()
                .debug()
                .flags("collapse plain strings"),
        );
    }

    // ---- slices
    {
        type S = Slice<Mirror<u8>, Vec<u8>>;
        type R = <S as Spec>::R;
        let e = Entry::<S>::new(bytes_all()).large(bytes_large());
        let e = slice_forms!(e, S, R, u8);
        let e = slice_rforms!(e, S, R, u8);
        v.visit(e.ordered().cloneable().serde().debug().flags("vector plain"));
    }
    {
        // a plain vector as the element region of a slice region (its own ReserveItems / merge code)
        type S = Slice<VecRegion<u8>, Vec<usize>>;
        type R = <S as Spec>::R;
        let e = Entry::<S>::new(bytes_all()).large(bytes_large());
        let e = slice_forms!(e, S, R, u8);
        let e = slice_rforms!(e, S, R, u8);
        v.visit(e.cloneable().serde().debug().flags("vector plain"));
    }
    macro_rules! slice_mirror_usize {
        ($O:ty) => {{
            // the inner indices are the values themselves: arbitrary usize sequences reach the
            // non-default index containers through SliceRegion (extend for slices, push for read items)
            type S = Slice<Mirror<usize>, $O>;
            type R = <S as Spec>::R;
            let big = u32::MAX as usize + 10;
            let vals: Vec<Vec<usize>> = vec![vec![], vec![0, 3], vec![big, 2, 3], vec![6, usize::MAX, 1]];
            let e = Entry::<S>::new(vals);
            let e = slice_forms!(e, S, R, usize);
            v.visit(e.cloneable().serde().debug().flags("plain"));
        }};
    }
    slice_mirror_usize!(IL);
    slice_mirror_usize!(IO);
    {
        type S = Slice<Str<Owned<u8>>, Vec<(usize, usize)>>;
        type R = <S as Spec>::R;
        let e = Entry::<S>::new(rows_str()).large(rows_str_large());
        let e = slice_forms!(e, S, R, String);
        let e = slice_rforms!(e, S, R, String);
        v.visit(
            e.form("Vec<&str>", f::vec_of_str::<R>)
                .form("&[&str]", f::slice_of_str::<R>)
                .ordered().cloneable()
                .serde()
                .debug()
                .flags("vector plain strings"),
        );
    }
    macro_rules! slice_consec_string {
        ($O:ty) => {{
            type S = Slice<Consec<Str<Owned<u8>>, $O>, $O>;
            type R = <S as Spec>::R;
            let e = Entry::<S>::new(rows_str()).large(rows_str_large());
            let e = slice_forms!(e, S, R, String);
            let e = slice_rforms!(e, S, R, String);
            v.visit(
                e.form("Vec<&str>", f::vec_of_str::<R>)
                    .form("&[&str]", f::slice_of_str::<R>)
                    .ordered().cloneable()
                    .serde()
                    .debug()
                    .flags("plain strings"),
            );
        }};
    }
    slice_consec_string!(IO);
    slice_consec_string!(VU);
    slice_consec_string!(IL);
    {
        type S = Slice<Collapse<Consec<Str<Owned<u8>>, IO>>, IO>;
        type R = <S as Spec>::R;
        let e = Entry::<S>::new(rows_str()).large(rows_str_large());
        v.visit(
            e.form("Vec<X>", f::owned::<R, Vec<String>>)
                .form("&Vec<X>", f::by_ref::<R, Vec<String>>)
                .form("&&Vec<X>", f::by_ref_ref::<R, Vec<String>>)
                .form("&[X]", f::slice::<R, String>)
                .form("[X; N]", f::array::<R, String>)
                .form("&[X; N]", f::ref_array::<R, String>)
                .form("Vec<&X>", f::vec_of_refs::<R, String>)
                .form("Vec<&str>", f::vec_of_str::<R>)
                .form("ReadSlice (region-backed)", f::read_item::<S>)
                .form("ReadSlice (borrowed from owned)", f::borrowed_item::<S>)
                .ordered().cloneable()
                .serde()
                .debug()
                .flags("collapse plain strings"),
        );
    }
    {
        type S = Slice<Slice<Mirror<u8>, Vec<u8>>, Vec<(usize, usize)>>;
        type R = <S as Spec>::R;
        let vals: Vec<Vec<Vec<u8>>> = vec![vec![], vec![vec![]], vec![vec![1], vec![]], vec![vec![1, 2], vec![3], vec![]]];
        let e = Entry::<S>::new(vals).large(vec![vec![(0..300).map(|i| i as u8).collect(), vec![], vec![9]]]);
        let e = slice_forms!(e, S, R, Vec<u8>);
        let e = slice_rforms!(e, S, R, Vec<u8>);
        v.visit(e.ordered().cloneable().serde().debug().flags("vector plain"));
    }
    {
        type S = Slice<Opt<Str<Owned<u8>>>, Vec<Option<(usize, usize)>>>;
        type R = <S as Spec>::R;
        let s = |x: &str| Some(x.to_string());
        let vals: Vec<Vec<Option<String>>> = vec![vec![], vec![None], vec![s("a"), None], vec![s(""), s("é"), None]];
        let e = Entry::<S>::new(vals);
        let e = slice_forms!(e, S, R, Option<String>);
        let e = slice_rforms!(e, S, R, Option<String>);
        v.visit(e.ordered().cloneable().serde().debug().flags("vector plain strings"));
    }
    {
        type S = Slice<Tup2<Mirror<u64>, Str<Owned<u8>>>, Vec<(u64, (usize, usize))>>;
        type R = <S as Spec>::R;
        let t = |a: u64, b: &str| (a, b.to_string());
        let vals: Vec<Vec<(u64, String)>> = vec![vec![], vec![t(0, "")], vec![t(1, "a"), t(u64::MAX, "é")]];
        let e = Entry::<S>::new(vals);
        let e = slice_forms!(e, S, R, (u64, String));
        let e = slice_rforms!(e, S, R, (u64, String));
        v.visit(e.ordered().cloneable().serde().debug().flags("vector plain strings"));
    }
    {
        // the inner region accepts `&Vec<u8>` / `&[u8; N]`, so the outer one accepts slices of vectors
        type S = Slice<Huff<u8>, Vec<(usize, usize)>>;
        type R = <S as Spec>::R;
        let vals: Vec<Vec<Vec<u8>>> = vec![vec![], vec![vec![]], vec![vec![1], vec![]], vec![vec![1, 2], vec![3], vec![]]];
        v.visit(
            Entry::<S>::new(vals)
                .form("Vec<X>", f::owned::<R, Vec<Vec<u8>>>)
                .form("&Vec<X>", f::by_ref::<R, Vec<Vec<u8>>>)
                .form("&[X]", f::slice::<R, Vec<u8>>)
                .form("ReadSlice (region-backed)", f::read_item::<S>)
                .form("ReadSlice (borrowed from owned)", f::borrowed_item::<S>)
                .ordered().cloneable()
                .flags("huffman noheap noreserve"),
        );
    }

    // ---- columns
    {
        type S = Cols<Mirror<u8>, IO>;
        type R = <S as Spec>::R;
        let e = Entry::<S>::new(rows_u8()).large(bytes_large()[..1].to_vec());
        let e = columns_forms!(e, S, R, u8, Mirror<u8>);
        v.visit(e.cloneable().serde().debug().flags("dense plain"));
    }
    {
        type S = Cols<Owned<u8>, IO>;
        type R = <S as Spec>::R;
        let vals: Vec<Vec<Vec<u8>>> = vec![vec![], vec![vec![]], vec![vec![1], vec![]], vec![vec![1, 2], vec![3], vec![]]];
        let e = Entry::<S>::new(vals);
        let e = columns_forms!(e, S, R, Vec<u8>, Owned<u8>);
        v.visit(e.cloneable().serde().debug().flags("dense plain"));
    }
    macro_rules! cols_consec_string {
        ($O:ty) => {{
            type S = Cols<Consec<Str<Owned<u8>>, $O>, $O>;
            type R = <S as Spec>::R;
            let e = Entry::<S>::new(rows_str()).large(rows_str_large());
            let e = columns_forms!(e, S, R, String, Consec<Str<Owned<u8>>, $O>);
            v.visit(
                e.form("Vec<&str>", f::vec_of_str::<R>)
                    .form("&[&str]", f::slice_of_str::<R>)
                    .cloneable()
                    .serde()
                    .debug()
                    .flags("dense plain strings"),
            );
        }};
    }
    cols_consec_string!(IO);
    cols_consec_string!(VU);
    cols_consec_string!(IL);
    {
        type S = Cols<Collapse<Consec<Str<Owned<u8>>, IO>>, IO>;
        type R = <S as Spec>::R;
        let e = Entry::<S>::new(rows_str()).large(rows_str_large());
        v.visit(
            e.form("Vec<X>", f::owned::<R, Vec<String>>)
                .form("&Vec<X>", f::by_ref::<R, Vec<String>>)
                .form("&[X]", f::slice::<R, String>)
                .form("PushIter<Vec<X>>", f::iter_vec::<R, String>)
                .form("Vec<&str>", f::vec_of_str::<R>)
                .form("ReadColumns (region-backed)", f::read_item::<S>)
                .form("ReadColumns (borrowed from owned)", f::borrowed_item::<S>)
                .cloneable()
                .serde()
                .debug()
                .flags("dense collapse plain strings"),
        );
    }
    {
        type S = Cols<Slice<Mirror<u8>, Vec<u8>>, IO>;
        type R = <S as Spec>::R;
        let vals: Vec<Vec<Vec<u8>>> = vec![vec![], vec![vec![]], vec![vec![1], vec![]], vec![vec![1, 2], vec![3], vec![]]];
        let e = Entry::<S>::new(vals);
        let e = columns_forms!(e, S, R, Vec<u8>, Slice<Mirror<u8>, Vec<u8>>);
        v.visit(e.cloneable().serde().debug().flags("dense plain"));
    }
    {
        // bench composition: slices of rows
        type Row = Cols<Tup3<Mirror<u8>, Collapse<Owned<u8>>, Collapse<Str<Owned<u8>>>>, IO>;
        type S = Slice<Row, Vec<usize>>;
        type R = <S as Spec>::R;
        type Cell = (u8, Vec<u8>, String);
        let c = |a: u8, b: &[u8], s: &str| -> Cell { (a, b.to_vec(), s.to_string()) };
        let vals: Vec<Vec<Vec<Cell>>> = vec![
            vec![],
            vec![vec![]],
            vec![vec![c(1, &[1], "a")], vec![c(1, &[1], "a"), c(2, &[], "é")]],
            vec![vec![c(1, &[1], "a"), c(0, &[], "")], vec![], vec![c(2, &[2], "a")]],
        ];
        let e = Entry::<S>::new(vals);
        v.visit(
            e.form("Vec<X>", f::owned::<R, Vec<Vec<Cell>>>)
                .form("&Vec<X>", f::by_ref::<R, Vec<Vec<Cell>>>)
                .form("&[X]", f::slice::<R, Vec<Cell>>)
                .form("ReadSlice (region-backed)", f::read_item::<S>)
                .form("ReadSlice (borrowed from owned)", f::borrowed_item::<S>)
                .cloneable()
                .serde()
                .debug()
                .flags("collapse plain strings"),
        );
    }

    {
        type S = ColsDict;
        type R = <S as Spec>::R;
        // the third value starts with byte 0: a tag as soon as any dictionary exists
        let vals: Vec<Vec<Vec<u8>>> = vec![vec![], vec![vec![1]], vec![vec![0, 7], vec![1, 2]], vec![vec![1, 2], vec![1], vec![0, 7]]];
        v.visit(
            Entry::<S>::new(vals)
                .form("Vec<&[u8]>", |r: &mut R, v: &Vec<Vec<u8>>| r.push(v.iter().map(|c| c.as_slice()).collect::<Vec<&[u8]>>()))
                .form("PushIter<Vec<&[u8]>>", |r: &mut R, v: &Vec<Vec<u8>>| {
                    r.push(flatcontainer::PushIter(v.iter().map(|c| c.as_slice()).collect::<Vec<&[u8]>>()))
                })
                .form("ReadColumns (region-backed)", f::read_item::<S>)
                .form("ReadColumns (borrowed from owned)", f::borrowed_item::<S>)
                .debug()
                .flags("dense dictionary"),
        );
    }

    {
        type S = ColsHuff;
        type R = <S as Spec>::R;
        let vals: Vec<Vec<Vec<u8>>> = vec![vec![], vec![vec![1]], vec![vec![1, 1, 2], vec![3]], vec![vec![2], vec![], vec![4, 4, 5]]];
        v.visit(
            Entry::<S>::new(vals)
                .form("Vec<&[u8]>", |r: &mut R, v: &Vec<Vec<u8>>| r.push(v.iter().map(|c| c.as_slice()).collect::<Vec<&[u8]>>()))
                .form("PushIter<Vec<&[u8]>>", |r: &mut R, v: &Vec<Vec<u8>>| {
                    r.push(flatcontainer::PushIter(v.iter().map(|c| c.as_slice()).collect::<Vec<&[u8]>>()))
                })
                .form("ReadColumns (region-backed)", f::read_item::<S>)
                .flags("dense huffman noheap noreserve"),
        );
    }

    // ---- coded regions (generation 0 here; their full contracts are C06 / C07)
    {
        type S = Dict<Owned<u8>>;
        type R = <S as Spec>::R;
        v.visit(
            Entry::<S>::new(vec![vec![], vec![1], vec![1, 2], vec![0, 7]])
                .large(bytes_large())
                .form("&[u8]", f::slice::<R, u8>)
                .debug()
                .flags("dictionary"),
        );
    }
    {
        type S = Dict<Consec<Owned<u8>, IO>>;
        type R = <S as Spec>::R;
        v.visit(
            Entry::<S>::new(vec![vec![], vec![1], vec![1, 2], vec![0, 7]])
                .form("&[u8]", f::slice::<R, u8>)
                .debug()
                .flags("dictionary dense"),
        );
    }
    {
        type S = Huff<u8>;
        type R = <S as Spec>::R;
        v.visit(
            Entry::<S>::new(bytes_all())
                .large(bytes_large())
                .form("Vec<B>", f::owned::<R, Vec<u8>>)
                .form("&Vec<B>", f::by_ref::<R, Vec<u8>>)
                .form("&[B]", f::slice::<R, u8>)
                .form("[B; N]", f::array::<R, u8>)
                .form("&[B; N]", f::ref_array::<R, u8>)
                .form("Wrapped (from a raw container)", f::read_item::<S>)
                .form("Wrapped (borrowed from owned)", f::borrowed_item::<S>)
                .ordered().cloneable()
                .render_with(|r| r.verif_fingerprint())
                .flags("huffman noheap noreserve"),
        );
    }
    {
        type S = Huff<u16>;
        type R = <S as Spec>::R;
        v.visit(
            Entry::<S>::new(vec![vec![], vec![1], vec![300, 2], vec![65535]])
                .form("Vec<B>", f::owned::<R, Vec<u16>>)
                .form("&Vec<B>", f::by_ref::<R, Vec<u16>>)
                .form("&[B]", f::slice::<R, u16>)
                .ordered().cloneable()
                .render_with(|r| r.verif_fingerprint())
                .flags("huffman noheap noreserve"),
        );
    }
}

// ---------------------------------------------------------------------------------------------
// single entries by type, and FlatStack configurations

/// The catalogue entry of composition `S`.
pub fn entry_of<S: Spec>() -> Entry<S> {
    struct Grab<S: Spec>(Option<Entry<S>>);
    impl<S: Spec> Visitor for Grab<S> {
        fn visit<S2: Spec>(&mut self, e: Entry<S2>) {
            let b: Box<dyn std::any::Any> = Box::new(e);
            if let Ok(x) = b.downcast::<Entry<S>>() {
                self.0 = Some(*x);
            }
        }
    }
    let mut g = Grab::<S>(None);
    visit_all(&mut g);
    g.0.unwrap_or_else(|| panic!("{} is not in the catalogue", S::name()))
}

use crate::m_stack::StackCaps;

pub trait StackVisitor {
    fn visit<S: Spec, C: flatcontainer::impls::index::IndexContainer<Idx<S>> + IdxModel<Idx<S>> + 'static>(&mut self, e: Entry<S>, caps: StackCaps<S, C>);
}

pub fn visit_stacks<Vz: StackVisitor>(v: &mut Vz) {
    macro_rules! full {
        ($S:ty, $C:ty, $cname:expr, $cb:expr) => {
            StackCaps::<$S, $C>::new($cname, $cb).owned().by_ref().debug().cloneable().serde()
        };
    }
    type Pair = (usize, usize);
    {
        let mut c = full!(Str<Owned<u8>>, Vec<Pair>, "Vec<Index>", 1).reserving();
        c.exact_size = true;
        v.visit(entry_of::<Str<Owned<u8>>>(), c);
    }
    // the indices of a MirrorRegion<usize> are the copied values: arbitrary usize sequences
    // reach the index containers through the public FlatStack API
    let idx_vals: Vec<usize> = vec![0, 3, 6, 1, u32::MAX as usize, u32::MAX as usize + 1, 1 << 63, usize::MAX];
    {
        let mut e = entry_of::<Mirror<usize>>();
        e.values = idx_vals.clone();
        v.visit(e.clone(), full!(Mirror<usize>, Vec<usize>, "Vec<Index>", 1));
        v.visit(e.clone(), full!(Mirror<usize>, IO, "IndexOptimized", 2));
        v.visit(e, full!(Mirror<usize>, IL, "IndexList", 2));
    }
    v.visit(entry_of::<Consec<Str<Owned<u8>>, IO>>(), full!(Consec<Str<Owned<u8>>, IO>, IO, "IndexOptimized", 2).free_indices().reserving());
    v.visit(entry_of::<Consec<Str<Owned<u8>>, IO>>(), full!(Consec<Str<Owned<u8>>, IO>, VU, "Vec<Index>", 1));
    v.visit(entry_of::<Consec<Str<Owned<u8>>, IO>>(), full!(Consec<Str<Owned<u8>>, IO>, IL, "IndexList", 2));
    v.visit(
        entry_of::<Cols<Consec<Str<Owned<u8>>, IO>, IO>>(),
        full!(Cols<Consec<Str<Owned<u8>>, IO>, IO>, IO, "IndexOptimized", 2).free_indices(),
    );
    v.visit(entry_of::<Cols<Mirror<u8>, IO>>(), full!(Cols<Mirror<u8>, IO>, IO, "IndexOptimized", 2).free_indices());
    v.visit(entry_of::<VecRegion<String>>(), full!(VecRegion<String>, IO, "IndexOptimized", 2).free_indices());
    v.visit(
        entry_of::<Consec<Owned<()>, IO>>(),
        StackCaps::<Consec<Owned<()>, IO>, IO>::new("IndexOptimized", 2).owned().by_ref().cloneable().free_indices(),
    );
    v.visit(entry_of::<Slice<Mirror<u8>, Vec<u8>>>(), full!(Slice<Mirror<u8>, Vec<u8>>, Vec<Pair>, "Vec<Index>", 1).reserving());
    v.visit(
        entry_of::<Slice<Str<Owned<u8>>, Vec<Pair>>>(),
        full!(Slice<Str<Owned<u8>>, Vec<Pair>>, Vec<Pair>, "Vec<Index>", 1).reserving(),
    );
    v.visit(entry_of::<Collapse<Str<Owned<u8>>>>(), full!(Collapse<Str<Owned<u8>>>, Vec<Pair>, "Vec<Index>", 1));
    // the only caller of IndexContainer::extend is SliceRegion: non-default containers below a FlatStack
    v.visit(entry_of::<Slice<Mirror<usize>, IO>>(), full!(Slice<Mirror<usize>, IO>, Vec<Pair>, "Vec<Index>", 1));
    v.visit(entry_of::<Slice<Mirror<usize>, IL>>(), full!(Slice<Mirror<usize>, IL>, Vec<Pair>, "Vec<Index>", 1));
    v.visit(entry_of::<Opt<Str<Owned<u8>>>>(), full!(Opt<Str<Owned<u8>>>, Vec<Option<Pair>>, "Vec<Index>", 1).reserving());
    v.visit(
        entry_of::<Res<Str<Owned<u8>>, Mirror<u16>>>(),
        full!(Res<Str<Owned<u8>>, Mirror<u16>>, Vec<Result<Pair, u16>>, "Vec<Index>", 1),
    );
    v.visit(
        entry_of::<Tup2<Mirror<u64>, Str<Owned<u8>>>>(),
        full!(Tup2<Mirror<u64>, Str<Owned<u8>>>, Vec<(u64, Pair)>, "Vec<Index>", 1),
    );
    v.visit(entry_of::<Huff<u8>>(), StackCaps::<Huff<u8>, Vec<Pair>>::new("Vec<Index>", 1).owned().by_ref().debug().cloneable());
}
