//! Machines for the index containers (C05, C19, C16 for containers).

use crate::engine::{guard, Machine, OpId, Step};
use flatcontainer::impls::index::{IndexList, IndexOptimized, Stride};
use std::fmt::Debug;

/// Documented pattern: `0, s, 2s, ..., (k-1)s` followed by repeats of the last element.
/// Computed in u128 so that the reference cannot overflow.
pub fn matches_stride_pattern(seq: &[usize]) -> bool {
    if seq.is_empty() {
        return true;
    }
    if seq[0] != 0 {
        return false;
    }
    if seq.len() == 1 {
        return true;
    }
    let s = seq[1] as u128;
    let mut k = seq.len();
    for (i, &x) in seq.iter().enumerate() {
        if x as u128 != s * i as u128 {
            k = i;
            break;
        }
    }
    // k >= 2 here
    let last = s * (k as u128 - 1);
    seq[k..].iter().all(|&x| x as u128 == last)
}

/// Length of the longest prefix an implementation that tries the stride greedily keeps free.
pub fn stride_prefix_len(seq: &[usize]) -> usize {
    let mut n = 0;
    while n < seq.len() && matches_stride_pattern(&seq[..n + 1]) {
        n += 1;
    }
    n
}

pub trait IdxSubject: Default + Clone + Debug + Send + 'static {
    const NAME: &'static str;
    const IS_STRIDE: bool = false;
    const HAS_HEAP: bool = true;
    fn s_push(&mut self, x: usize) -> bool;
    fn s_extend(&mut self, xs: Vec<usize>);
    fn s_clear(&mut self);
    fn s_reserve(&mut self, n: usize);
    fn s_len(&self) -> usize;
    fn s_is_empty(&self) -> bool;
    fn s_index(&self, i: usize) -> usize;
    /// iterate (bounded), and also clone the iterator after `split` items and drain the clone.
    fn s_iter(&self, bound: usize, split: usize) -> (Vec<usize>, Vec<usize>);
    /// nth / skip / step_by agree with stepping
    fn s_iter_laws(&self, seq: &[usize]) -> Result<(), String>;
    fn s_heap(&self) -> Vec<(usize, usize)>;
    fn s_serde(&self) -> Option<Self>;
}

impl IdxSubject for Stride {
    const NAME: &'static str = "Stride";
    const IS_STRIDE: bool = true;
    const HAS_HEAP: bool = false;
    fn s_push(&mut self, x: usize) -> bool {
        self.push(x)
    }
    fn s_extend(&mut self, _xs: Vec<usize>) {
        unreachable!()
    }
    fn s_clear(&mut self) {
        self.clear()
    }
    fn s_reserve(&mut self, _n: usize) {}
    fn s_len(&self) -> usize {
        self.len()
    }
    fn s_is_empty(&self) -> bool {
        self.is_empty()
    }
    fn s_index(&self, i: usize) -> usize {
        self.index(i)
    }
    fn s_iter(&self, bound: usize, split: usize) -> (Vec<usize>, Vec<usize>) {
        let mut it = self.iter();
        let mut a = Vec::new();
        let mut b = Vec::new();
        let mut cloned = false;
        loop {
            if a.len() == split && !cloned {
                cloned = true;
                b = it.clone().take(bound + 1).collect();
            }
            if a.len() > bound {
                break;
            }
            match it.next() {
                Some(x) => a.push(x),
                None => break,
            }
        }
        (a, b)
    }
    fn s_iter_laws(&self, seq: &[usize]) -> Result<(), String> {
        crate::engine::iter_laws(&self.iter(), seq.len(), &|x, j| if x == seq[j] { Ok(()) } else { Err(format!("yields {x}, pushed {}", seq[j])) })
    }
    fn s_heap(&self) -> Vec<(usize, usize)> {
        vec![]
    }
    fn s_serde(&self) -> Option<Self> {
        let s = serde_json::to_string(self).ok()?;
        serde_json::from_str(&s).ok()
    }
}

macro_rules! impl_subject {
    ($t:ty, $name:expr) => {
        impl IdxSubject for $t {
            const NAME: &'static str = $name;
            fn s_push(&mut self, x: usize) -> bool {
                flatcontainer::impls::index::IndexContainer::<usize>::push(self, x);
                true
            }
            fn s_extend(&mut self, xs: Vec<usize>) {
                flatcontainer::impls::index::IndexContainer::<usize>::extend(self, xs);
            }
            fn s_clear(&mut self) {
                flatcontainer::impls::storage::Storage::<usize>::clear(self)
            }
            fn s_reserve(&mut self, n: usize) {
                flatcontainer::impls::storage::Storage::<usize>::reserve(self, n)
            }
            fn s_len(&self) -> usize {
                flatcontainer::impls::storage::Storage::<usize>::len(self)
            }
            fn s_is_empty(&self) -> bool {
                flatcontainer::impls::storage::Storage::<usize>::is_empty(self)
            }
            fn s_index(&self, i: usize) -> usize {
                flatcontainer::impls::index::IndexContainer::<usize>::index(self, i)
            }
            fn s_iter(&self, bound: usize, split: usize) -> (Vec<usize>, Vec<usize>) {
                let mut it = flatcontainer::impls::index::IndexContainer::<usize>::iter(self);
                let mut a = Vec::new();
                let mut b = Vec::new();
                let mut cloned = false;
                loop {
                    if a.len() == split && !cloned {
                        cloned = true;
                        b = it.clone().take(bound + 1).collect();
                    }
                    if a.len() > bound {
                        break;
                    }
                    match it.next() {
                        Some(x) => a.push(x),
                        None => break,
                    }
                }
                (a, b)
            }
            fn s_iter_laws(&self, seq: &[usize]) -> Result<(), String> {
                let it = flatcontainer::impls::index::IndexContainer::<usize>::iter(self);
                crate::engine::iter_laws(&it, seq.len(), &|x, j| if x == seq[j] { Ok(()) } else { Err(format!("yields {x}, pushed {}", seq[j])) })
            }
            fn s_heap(&self) -> Vec<(usize, usize)> {
                let mut v = Vec::new();
                flatcontainer::impls::storage::Storage::<usize>::heap_size(self, |u, c| v.push((u, c)));
                v
            }
            fn s_serde(&self) -> Option<Self> {
                let s = serde_json::to_string(self).ok()?;
                serde_json::from_str(&s).ok()
            }
        }
    };
}

impl_subject!(IndexList<Vec<u32>, Vec<u64>>, "IndexList<Vec<u32>,Vec<u64>>");
impl_subject!(IndexOptimized, "IndexOptimized");
impl_subject!(Vec<usize>, "Vec<usize>");

/// usize::MAX / 3 and usize::MAX / 2: strides whose multiples land exactly on / next to usize::MAX
pub const ABS: [usize; 10] =
    [0, 1, 2, 3, u32::MAX as usize, u32::MAX as usize + 1, 1usize << 63, usize::MAX, usize::MAX / 3, usize::MAX / 2];
const N_ABS: u32 = 10;
const R_NEXT: u32 = 10;
const R_LAST: u32 = 11;
const R_LAST_P1: u32 = 12;
const R_LAST_M1: u32 = 13;
const R_DOUBLE: u32 = 14;
/// the next multiple of the stride *prefix* (differs from R_NEXT once the stride has been broken)
const R_NEXT_PREFIX: u32 = 15;
const N_PUSH: u32 = 16;
const OP_CLEAR: u32 = 16;
const OP_RESERVE: u32 = 17;
const OP_EXT0: u32 = 18; // extend([])
const OP_EXT1: u32 = 19; // extend([next, next'])
const OP_EXT2: u32 = 20; // extend([last, last])
const OP_EXT3: u32 = 21; // extend([u32::MAX+1, 0])
const OP_SERDE: u32 = 22;
const OP_EXT4: u32 = 24; // extend([next two multiples of the stride prefix]) (continues a broken stride)
/// push(2^30): used by script 2 only, not part of the BFS alphabet
const R_2P30: u32 = 23;

#[derive(Clone, Copy, PartialEq, Eq, Debug)]
pub enum IdxOracle {
    /// C05: faithful sequence, never panics, Stride verdicts.
    Faithful,
    /// C19: documented byte cost (plus faithful reads).
    Space,
    /// C16: serde round trip op enabled.
    Serde,
}

pub struct IdxMachine<C: IdxSubject> {
    c: C,
    seq: Vec<usize>,
    ever_spilled: bool,
    /// reserve() was called in this history (capacities are then the caller's business)
    reserved: bool,
    /// most bytes ever used per storage since creation
    high_water: Vec<usize>,
    oracle: IdxOracle,
    script: u8,
    tags: Vec<String>,
}

impl<C: IdxSubject> IdxMachine<C> {
    pub fn new(oracle: IdxOracle, script: u8) -> Self {
        IdxMachine { c: C::default(), seq: vec![], ever_spilled: false, reserved: false, high_water: vec![], oracle, script, tags: vec![] }
    }

    fn next_stride(&self, seq: &[usize]) -> usize {
        match seq.len() {
            0 => 0,
            1 => 3,
            n => {
                let s = seq[1] as u128;
                let x = s * n as u128;
                if x > usize::MAX as u128 {
                    usize::MAX
                } else {
                    x as usize
                }
            }
        }
    }

    fn value_of(&self, role: u32) -> usize {
        let last = self.seq.last().copied().unwrap_or(0);
        match role {
            r if r < N_ABS => ABS[r as usize],
            R_NEXT => self.next_stride(&self.seq),
            R_LAST => last,
            R_LAST_P1 => last.wrapping_add(1),
            R_LAST_M1 => last.wrapping_sub(1),
            R_DOUBLE => last.wrapping_mul(2),
            R_NEXT_PREFIX => {
                if self.seq.len() < 2 {
                    return self.next_stride(&self.seq);
                }
                let p = stride_prefix_len(&self.seq);
                // number of stride steps in the prefix (repeats of the last element do not count)
                let s = self.seq[1] as u128;
                let mut steps = p;
                while steps >= 2 && self.seq[steps - 1] == self.seq[steps - 2] && s != 0 {
                    steps -= 1;
                }
                let x = s * steps as u128;
                if x > usize::MAX as u128 {
                    usize::MAX
                } else {
                    x as usize
                }
            }
            R_2P30 => 1usize << 30,
            _ => unreachable!(),
        }
    }

    fn ext_values(&self, op: u32) -> Vec<usize> {
        match op {
            OP_EXT0 => vec![],
            OP_EXT1 => {
                let a = self.next_stride(&self.seq);
                let mut s = self.seq.clone();
                s.push(a);
                let b = self.next_stride(&s);
                vec![a, b]
            }
            OP_EXT2 => {
                let l = self.seq.last().copied().unwrap_or(0);
                vec![l, l]
            }
            OP_EXT3 => vec![u32::MAX as usize + 1, 0],
            OP_EXT4 => {
                let a = self.value_of(R_NEXT_PREFIX);
                let s = self.seq.get(1).copied().unwrap_or(3);
                vec![a, a.saturating_add(s)]
            }
            _ => unreachable!(),
        }
    }

    fn check_reads(&mut self) -> Result<(), String> {
        let seq = &self.seq;
        let c = &self.c;
        let n = seq.len();
        let len = guard(|| c.s_len()).map_err(|p| format!("len() panicked: {p}"))?;
        if len != n {
            return Err(format!("len() = {len}, pushed {n} values {:?}", short(seq)));
        }
        let ie = guard(|| c.s_is_empty()).map_err(|p| format!("is_empty() panicked: {p}"))?;
        if ie != (n == 0) {
            return Err(format!("is_empty() = {ie} with {n} values"));
        }
        for i in 0..n {
            let x = guard(|| c.s_index(i)).map_err(|p| format!("index({i}) panicked: {p}; sequence {:?}", short(seq)))?;
            if x != seq[i] {
                return Err(format!("index({i}) = {x}, pushed {} (sequence {:?})", seq[i], short(seq)));
            }
        }
        let split = n / 2;
        let (a, b) = guard(|| c.s_iter(n + 1, split)).map_err(|p| format!("iter() panicked: {p}; sequence {:?}", short(seq)))?;
        if &a != seq {
            return Err(format!("iter() yields {:?}, pushed {:?}", short(&a), short(seq)));
        }
        if b != seq[split..] {
            return Err(format!("iterator cloned after {split} items yields {:?}, expected {:?}", short(&b), short(&seq[split..])));
        }
        guard(|| c.s_iter_laws(seq))
            .map_err(|p| format!("iterator method panicked: {p}; sequence {:?}", short(seq)))?
            .map_err(|e| format!("iter(): {e} (sequence {:?})", short(seq)))?;
        Ok(())
    }

    fn check_space(&mut self) -> Result<(), String> {
        if !C::HAS_HEAP {
            return Ok(());
        }
        let c = &self.c;
        let heap = guard(|| c.s_heap()).map_err(|p| format!("heap_size panicked: {p}"))?;
        for (u, cap) in &heap {
            if u > cap {
                return Err(format!("heap_size reports used {u} > capacity {cap}"));
            }
        }
        let used: usize = heap.iter().map(|h| h.0).sum();
        let cap: usize = heap.iter().map(|h| h.1).sum();
        let expected = match C::NAME {
            "IndexOptimized" => {
                let p = stride_prefix_len(&self.seq);
                if p < self.seq.len() {
                    self.ever_spilled = true;
                }
                list_cost(&self.seq[p..])
            }
            "Vec<usize>" => return Ok(()),
            _ => list_cost(&self.seq),
        };
        if used != expected {
            return Err(format!(
                "index container occupies {used} bytes, the documented rule gives {expected} for sequence {:?} (pairs {:?})",
                short(&self.seq),
                heap
            ));
        }
        if C::NAME == "IndexOptimized" && !self.ever_spilled && cap != 0 {
            return Err(format!("never spilled, but reports capacity {cap} bytes (pairs {:?})", heap));
        }
        // "4 / 8 bytes per entry": without an explicit reserve the allocation stays within amortised
        // doubling of what is used (at least room for four entries)
        if C::NAME == "IndexOptimized" && !self.reserved {
            for (k, (u, c)) in heap.iter().enumerate() {
                let entry = if k == 0 { 4 } else { 8 };
                // allocations are retained across clear(): compare with the high-water mark
                if self.high_water.len() <= k {
                    self.high_water.resize(k + 1, 0);
                }
                self.high_water[k] = self.high_water[k].max(*u);
                let u = &self.high_water[k];
                if *c > (2 * *u).max(4 * entry) {
                    return Err(format!(
                        "index container allocates {c} bytes for {u} bytes of spilled entries although nothing was reserved (pairs {:?}, sequence {:?})",
                        heap,
                        short(&self.seq)
                    ));
                }
            }
        }
        let chonk = heap.get(1).map(|h| h.0).unwrap_or(0) > 0;
        let smol = heap.first().map(|h| h.0).unwrap_or(0) > 0;
        self.tags.push(format!(
            "cost:{}",
            match (used, smol, chonk) {
                (0, _, _) => "free",
                (_, true, false) => "u32",
                (_, true, true) => "u32+u64",
                _ => "u64",
            }
        ));
        Ok(())
    }
}

fn list_cost(seq: &[usize]) -> usize {
    let first_big = seq.iter().position(|&x| x > u32::MAX as usize).unwrap_or(seq.len());
    4 * first_big + 8 * (seq.len() - first_big)
}

fn short(seq: &[usize]) -> Vec<String> {
    let f = |x: &usize| -> String {
        match *x {
            x if x == usize::MAX => "usize::MAX".into(),
            x if x == 1usize << 63 => "2^63".into(),
            x if x == u32::MAX as usize => "u32::MAX".into(),
            x if x == u32::MAX as usize + 1 => "u32::MAX+1".into(),
            x => x.to_string(),
        }
    };
    if seq.len() <= 12 {
        seq.iter().map(f).collect()
    } else {
        let mut v: Vec<String> = seq[..6].iter().map(f).collect();
        v.push(format!("…({} more)…", seq.len() - 10));
        v.extend(seq[seq.len() - 4..].iter().map(f));
        v
    }
}

impl<C: IdxSubject> Machine for IdxMachine<C> {
    fn name(&self) -> String {
        format!("index/{}/{:?}/script{}", C::NAME, self.oracle, self.script)
    }
    fn reset(&mut self) {
        self.c = C::default();
        self.seq.clear();
        self.ever_spilled = false;
        self.reserved = false;
        self.high_water.clear();
        self.tags.clear();
    }
    fn enabled(&self) -> Vec<OpId> {
        let mut v: Vec<OpId> = (0..N_PUSH).collect();
        v.push(OP_CLEAR);
        if !C::IS_STRIDE {
            v.extend([OP_RESERVE, OP_EXT0, OP_EXT1, OP_EXT2, OP_EXT3, OP_EXT4]);
        }
        if self.oracle == IdxOracle::Serde {
            v.push(OP_SERDE);
        }
        v
    }
    fn describe(&self, op: OpId) -> String {
        match op {
            r if r < N_PUSH || r == R_2P30 => format!("push({})", short(&[self.value_of(r)])[0]),
            OP_CLEAR => "clear()".into(),
            OP_RESERVE => "reserve(2)".into(),
            OP_SERDE => "replace by serde_json round trip".into(),
            e => format!("extend({:?})", short(&self.ext_values(e))),
        }
    }
    fn step(&mut self, op: OpId) -> Step {
        match op {
            r if r < N_PUSH || r == R_2P30 => {
                let x = self.value_of(r);
                let before = self.c.clone();
                let c = &mut self.c;
                let verdict = match guard(|| c.s_push(x)) {
                    Ok(v) => v,
                    Err(p) => {
                        return Step::Violation(format!(
                            "push({}) panicked: {p}; earlier sequence {:?}",
                            short(&[x])[0],
                            short(&self.seq)
                        ))
                    }
                };
                if C::IS_STRIDE {
                    let mut s = self.seq.clone();
                    s.push(x);
                    let expect = matches_stride_pattern(&s);
                    if verdict != expect {
                        return Step::Violation(format!(
                            "Stride::push({}) returned {verdict} after {:?}; the documented pattern says {expect}",
                            short(&[x])[0],
                            short(&self.seq)
                        ));
                    }
                    if !verdict && format!("{:?}", before) != format!("{:?}", self.c) {
                        return Step::Violation(format!(
                            "Stride::push({}) rejected but changed the state {:?} -> {:?}",
                            short(&[x])[0],
                            before,
                            self.c
                        ));
                    }
                    self.tags.push(format!("stride:{}:{}", variant(&format!("{:?}", before)), if verdict { "accept" } else { "reject" }));
                    if verdict {
                        self.seq.push(x);
                    }
                } else {
                    self.seq.push(x);
                }
            }
            OP_CLEAR => {
                let c = &mut self.c;
                if let Err(p) = guard(|| c.s_clear()) {
                    return Step::Violation(format!("clear() panicked: {p}"));
                }
                self.seq.clear();
            }
            OP_RESERVE => {
                let c = &mut self.c;
                if let Err(p) = guard(|| c.s_reserve(2)) {
                    return Step::Violation(format!("reserve(2) panicked: {p}"));
                }
                self.reserved = true;
                if C::NAME != "IndexOptimized" {
                    self.ever_spilled = true;
                }
            }
            OP_SERDE => {
                let c = &self.c;
                match guard(|| c.s_serde()) {
                    Ok(Some(copy)) => {
                        let a = format!("{:?}", self.c);
                        let b = format!("{:?}", copy);
                        if a != b {
                            return Step::Violation(format!("serde round trip changed the container: {a} -> {b}"));
                        }
                        self.c = copy;
                    }
                    Ok(None) => return Step::Violation("serde round trip failed (serialize or deserialize error)".into()),
                    Err(p) => return Step::Violation(format!("serde round trip panicked: {p}")),
                }
            }
            e => {
                let xs = self.ext_values(e);
                let c = &mut self.c;
                let xs2 = xs.clone();
                if let Err(p) = guard(|| c.s_extend(xs2)) {
                    return Step::Violation(format!("extend({:?}) panicked: {p}; earlier sequence {:?}", short(&xs), short(&self.seq)));
                }
                self.seq.extend(xs);
            }
        }
        if let Err(e) = self.check_reads() {
            return Step::Violation(e);
        }
        if self.oracle == IdxOracle::Space {
            if let Err(e) = self.check_space() {
                return Step::Violation(e);
            }
        }
        if !C::IS_STRIDE {
            let d = format!("{:?}", self.c);
            self.tags.push(format!("repr:{}", repr_tag(&d)));
        }
        Step::Ok
    }
    fn fingerprint(&self) -> Option<String> {
        Some(format!("{:?}|{:?}|{}|{}|{:?}", self.c, self.seq, self.ever_spilled, self.reserved, self.high_water))
    }
    fn drain_tags(&mut self) -> Vec<String> {
        std::mem::take(&mut self.tags)
    }
    fn script_default(&self, pos: usize) -> Option<OpId> {
        // script 0: stride 3; script 1: stride 0 (all zeros); script 2: stride 2^30 (crosses u32::MAX);
        // script 3: stride 3 for 8 steps and then saturated repeats.
        Some(match (self.script, pos) {
            (_, 0) => 0, // push(0)
            (1, _) => 0,
            (0, 1) | (3, 1) => 3, // push(3)
            (2, 1) => R_2P30,
            (3, p) if p >= 8 => R_LAST,
            _ => R_NEXT,
        })
    }
    fn script_deviations(&self, pos: usize) -> Vec<OpId> {
        let d = self.script_default(pos);
        self.enabled().into_iter().filter(|o| Some(*o) != d && *o != OP_EXT0).collect()
    }
}

fn variant(d: &str) -> &str {
    d.split('(').next().unwrap_or(d)
}

fn repr_tag(d: &str) -> String {
    // coarse classification of the representation, for the vacuity table only
    let strided = if d.contains("Saturated") {
        "saturated"
    } else if d.contains("Striding") {
        "striding"
    } else if d.contains("Zero") {
        "zero"
    } else if d.contains("Empty") {
        "empty"
    } else {
        "-"
    };
    let smol = d.contains("smol: [") && !d.contains("smol: []");
    let chonk = d.contains("chonk: [") && !d.contains("chonk: []");
    format!("{strided}/smol={smol}/chonk={chonk}")
}

