//! Property -> machines (jobs) table.

use crate::engine::{BfsCfg, DevCfg, Machine};
use crate::m_index::{IdxMachine, IdxOracle, IdxSubject};
use crate::{Job, Mode};
use crate::m_life::{LifeCfg, LifeMachine, Twin};
use crate::spec::{Entry, Spec, Visitor};
use flatcontainer::impls::index::{IndexList, IndexOptimized, Stride};

/// Non-generic view of an entry, for filters.
pub struct Info {
    pub name: String,
    pub dense: bool,
    pub strings: bool,
    pub collapse: bool,
    pub vector_backed: bool,
    pub coded: bool,
    pub zst: bool,
    pub cloneable: bool,
    pub serde: bool,
    pub n_forms: usize,
    pub has_heap: bool,
    pub positional: bool,
    pub ordered: bool,
    pub no_render: bool,
}

pub fn info<S: Spec>(e: &Entry<S>) -> Info {
    let name = S::name();
    Info {
        positional: name.contains("SliceRegion") || name.contains("ColumnsRegion"),
        name,
        dense: e.dense,
        strings: e.strings,
        collapse: e.collapse,
        vector_backed: e.vector_backed,
        coded: e.coded != crate::spec::Coded::No,
        zst: e.zst,
        cloneable: e.clone_fn.is_some(),
        serde: e.ser.is_some(),
        n_forms: e.forms.len(),
        has_heap: e.has_heap,
        ordered: e.cmp.is_some(),
        no_render: e.render.is_none(),
    }
}

struct LifeJobs<'a> {
    out: &'a mut Vec<Job>,
    cfg: LifeCfg,
    filter: &'a dyn Fn(&Info) -> bool,
    tweak: &'a dyn Fn(&Info, &mut LifeCfg),
    bfs_depth: usize,
    devs: Vec<(usize, usize, u8)>,
}

/// entries without state matching (zero-sized elements) get a small alphabet and a depth cap
fn zst_tweak(i: &Info, c: &mut LifeCfg, depth: &mut usize) {
    if i.zst {
        c.n_forms = c.n_forms.min(2);
        c.n_values = 5;
        c.use_large = false;
        *depth = (*depth).min(4);
    } else if i.no_render {
        // no complete rendering of the state (Huffman inside a slice): every history is its own state
        *depth = (*depth).min(4);
    }
}

impl<'a> Visitor for LifeJobs<'a> {
    fn visit<S: Spec>(&mut self, e: Entry<S>) {
        let inf = info(&e);
        if !(self.filter)(&inf) {
            return;
        }
        let mut cfg = self.cfg.clone();
        (self.tweak)(&inf, &mut cfg);
        let mut depth = self.bfs_depth;
        zst_tweak(&inf, &mut cfg, &mut depth);
        if self.bfs_depth > 0 {
            let (e2, c2) = (e.clone(), cfg.clone());
            let mut b = BfsCfg::new(depth);
            b.wall_cap_s = 300.0;
            b.max_states = 1_500_000;
            self.out.push(job(move || Box::new(LifeMachine::<S>::new(e2.clone(), c2.clone())), Mode::Bfs(b), false));
        }
        for &(n, k, script) in &self.devs {
            let (e2, mut c2) = (e.clone(), cfg.clone());
            c2.script = script;
            // runs with two deviations are thousands of executions: parallelise inside the job
            self.out.push(job(move || Box::new(LifeMachine::<S>::new(e2.clone(), c2.clone())), Mode::Dev(DevCfg::new(n, k)), k >= 2));
        }
    }
}

struct CloneJobs<'a> {
    out: &'a mut Vec<Job>,
    depth: usize,
    max_clones: usize,
}

impl<'a> Visitor for CloneJobs<'a> {
    fn visit<S: Spec>(&mut self, e: Entry<S>) {
        if e.clone_fn.is_none() {
            return;
        }
        let (nv, nf, depth) = if e.zst || e.render.is_none() { (3, 1, self.depth.min(4)) } else { (3, 2, self.depth) };
        let mc = self.max_clones;
        let mut b = BfsCfg::new(depth);
        b.wall_cap_s = 300.0;
        b.max_states = 1_500_000;
        self.out.push(job(move || Box::new(crate::m_clone::CloneMachine::<S>::new(e.clone(), nv, nf, mc)), Mode::Bfs(b), false));
    }
}

use crate::m_stack::{StackCaps, StackMachine, StackOracle};

struct StackJobs<'a> {
    out: &'a mut Vec<Job>,
    oracle: StackOracle,
    depth: usize,
    devs: Vec<(usize, usize, u8)>,
    n_values: usize,
}

impl<'a> crate::catalogue::StackVisitor for StackJobs<'a> {
    fn visit<S: Spec, C: flatcontainer::impls::index::IndexContainer<crate::spec::Idx<S>> + crate::spec::IdxModel<crate::spec::Idx<S>> + 'static>(&mut self, e: Entry<S>, caps: StackCaps<S, C>) {
        match self.oracle {
            StackOracle::Space if !caps.expect_free_indices => return,
            StackOracle::Serde if caps.ser.is_none() || e.zst => return,
            _ => {}
        }
        let oracle = self.oracle;
        let nv = if S::name() == "MirrorRegion<usize>" { 8 } else { self.n_values };
        let depth = if e.zst || caps.ser.is_none() { self.depth.min(3) } else if nv == 8 { self.depth.min(5) } else { self.depth };
        {
            let (e, caps) = (e.clone(), caps.clone());
            let mut b = BfsCfg::new(depth);
            b.wall_cap_s = 300.0;
            b.max_states = 1_500_000;
            self.out.push(job(move || Box::new(StackMachine::<S, C>::new(e.clone(), caps.clone(), oracle, nv, 0)), Mode::Bfs(b), false));
        }
        for &(n, k, script) in &self.devs {
            let (e, caps) = (e.clone(), caps.clone());
            self.out.push(job(
                move || Box::new(StackMachine::<S, C>::new(e.clone(), caps.clone(), oracle, nv, script)),
                Mode::Dev(DevCfg::new(n, k)),
                k >= 2,
            ));
        }
    }
}

fn stacks(out: &mut Vec<Job>, oracle: StackOracle, depth: usize, devs: &[(usize, usize, u8)], n_values: usize) {
    let mut v = StackJobs { out, oracle, depth, devs: devs.to_vec(), n_values };
    crate::catalogue::visit_stacks(&mut v);
}

struct AllocJobs<'a> {
    out: &'a mut Vec<Job>,
    thorough: bool,
}

impl<'a> Visitor for AllocJobs<'a> {
    fn visit<S: Spec>(&mut self, e: Entry<S>) {
        let coded = e.coded != crate::spec::Coded::No;
        // zero-sized elements never allocate: nothing to check, and announcing more than usize::MAX of them overflows
        if e.vector_backed && !coded && e.has_heap && !e.zst {
            let (prefix, batch) = if self.thorough { (2, 4) } else { (2, 2) };
            for owned in [false, true] {
                let e2 = e.clone();
                let mut b = BfsCfg::new(prefix + 1);
                b.max_states = 8_000_000;
                self.out.push(job(move || Box::new(crate::m_alloc::AllocMachine::<S>::new(e2.clone(), prefix, batch, owned)), Mode::Bfs(b), false));
            }
        }
        if e.plain && !coded && !e.zst && e.has_heap {
            let max_log2 = if self.thorough { 14 } else { 10 };
            for owned in [false, true] {
                let e2 = e.clone();
                self.out.push(job(move || Box::new(crate::m_alloc::LogMachine::<S>::new(e2.clone(), max_log2, owned)), Mode::Bfs(BfsCfg::new(1)), false));
            }
        }
    }
}

struct StackAllocJobs<'a> {
    out: &'a mut Vec<Job>,
    thorough: bool,
}

impl<'a> crate::catalogue::StackVisitor for StackAllocJobs<'a> {
    fn visit<S: Spec, C: flatcontainer::impls::index::IndexContainer<crate::spec::Idx<S>> + crate::spec::IdxModel<crate::spec::Idx<S>> + 'static>(&mut self, e: Entry<S>, caps: StackCaps<S, C>) {
        if caps.cname != "Vec<Index>" || caps.copy_owned.is_none() || e.coded != crate::spec::Coded::No || !e.has_heap || e.zst {
            return;
        }
        let batch = if self.thorough { 3 } else { 2 };
        let mut b = BfsCfg::new(2);
        b.max_states = 8_000_000;
        self.out.push(job(move || Box::new(crate::m_alloc::StackAllocMachine::<S, C>::new(e.clone(), caps.clone(), batch)), Mode::Bfs(b), false));
    }
}

/// dictionary-coded regions with large dictionaries / three generations (scripted seed states)
fn dict_seed_jobs(out: &mut Vec<Job>, seeds: &[u8], depth: usize) {
    use crate::m_dict::{Alphabet, DictCfg, DictMachine};
    for &seed in seeds {
        let cfg = DictCfg { seed, alphabet: Alphabet::Relative, max_merges: 1 };
        out.push(job(move || Box::new(DictMachine::new(cfg.clone())), Mode::Bfs(BfsCfg::new(depth)), false));
    }
}

/// entries used for the "large history first" families (more than 65535 items before the explored ops)
fn prefill_entry(i: &Info) -> bool {
    [
        "StringRegion",
        "ConsecutiveIndexPairs<StringRegion, IndexOptimized>",
        "ConsecutiveIndexPairs<OwnedRegion<u8>, Vec<usize>>",
        "ColumnsRegion<ConsecutiveIndexPairs<StringRegion, IndexOptimized>, IndexOptimized>",
        "SliceRegion<ConsecutiveIndexPairs<StringRegion, IndexOptimized>, IndexOptimized>",
        "SliceRegion<MirrorRegion<u8>>",
        "CollapseSequence<StringRegion>",
    ]
    .contains(&i.name.as_str())
}

fn life(
    out: &mut Vec<Job>,
    cfg: LifeCfg,
    bfs_depth: usize,
    devs: &[(usize, usize, u8)],
    filter: &dyn Fn(&Info) -> bool,
    tweak: &dyn Fn(&Info, &mut LifeCfg),
) {
    let mut v = LifeJobs { out, cfg, filter, tweak, bfs_depth, devs: devs.to_vec() };
    crate::catalogue::visit_all(&mut v);
}

pub const ALL: &[&str] = &[
    "C01", "C02", "C03", "C04", "C05", "C06", "C07", "C08", "C09", "C10", "C11", "C12", "C13", "C14", "C15", "C16",
    "C17", "C18", "C19", "C20",
];

fn job<F: Fn() -> Box<dyn Machine> + Sync + Send + 'static>(f: F, mode: Mode, big: bool) -> Job {
    Job { factory: Box::new(f), mode, big }
}

fn idx_jobs<C: IdxSubject>(out: &mut Vec<Job>, oracle: IdxOracle, depth: usize, devs: &[(usize, usize)], scripts: &[u8]) {
    let mut cfg = BfsCfg::new(depth);
    cfg.wall_cap_s = 900.0;
    cfg.max_states = 12_000_000;
    out.push(job(move || Box::new(IdxMachine::<C>::new(oracle, 0)), Mode::Bfs(cfg), true));
    for &script in scripts {
        for &(n, k) in devs {
            out.push(job(move || Box::new(IdxMachine::<C>::new(oracle, script)), Mode::Dev(DevCfg::new(n, k)), true));
        }
    }
}

pub fn jobs(prop: &str, tier: &str) -> Vec<Job> {
    let thorough = tier == "thorough";
    let mut out = Vec::new();
    match prop {
        "C05" => {
            let (d, devs): (usize, &[(usize, usize)]) = if thorough { (5, &[(64, 2), (256, 1)]) } else { (4, &[(24, 2), (64, 1)]) };
            let scripts: &[u8] = &[0, 1, 2, 3];
            idx_jobs::<Stride>(&mut out, IdxOracle::Faithful, d + 1, devs, scripts);
            idx_jobs::<IndexList<Vec<u32>, Vec<u64>>>(&mut out, IdxOracle::Faithful, d, devs, scripts);
            idx_jobs::<IndexOptimized>(&mut out, IdxOracle::Faithful, d, devs, scripts);
            idx_jobs::<Vec<usize>>(&mut out, IdxOracle::Faithful, d.min(4), &devs[..1], &[0]);
        }
        "C19" => {
            let (d, devs): (usize, &[(usize, usize)]) = if thorough { (5, &[(64, 2), (512, 1)]) } else { (4, &[(24, 2), (64, 1)]) };
            let scripts: &[u8] = &[0, 1, 2, 3];
            idx_jobs::<IndexList<Vec<u32>, Vec<u64>>>(&mut out, IdxOracle::Space, d, devs, scripts);
            idx_jobs::<IndexOptimized>(&mut out, IdxOracle::Space, d, devs, scripts);
            let sdevs: &[(usize, usize, u8)] = if thorough { &[(4096, 0, 0), (256, 1, 0), (48, 2, 1)] } else { &[(1024, 0, 0), (48, 1, 0)] };
            stacks(&mut out, StackOracle::Space, if thorough { 5 } else { 4 }, sdevs, 4);
        }
        "C01" => {
            let mut c = LifeCfg::new("C01");
            c.use_large = true;
            life(&mut out, c, if thorough { 3 } else { 2 }, &[], &|_| true, &|_, _| {});
            // the small alphabet in every form, in deeper contexts (item first / middle / last in storage,
            // after index-compression switches)
            let mut c = LifeCfg::new("C01");
            c.script = 9; // only to tell the machine names apart
            life(&mut out, c, if thorough { 5 } else { 4 }, &[], &|i| !i.zst, &|_, _| {});
            // coded regions "for data covered by the statistics they were built from": in-statistics strings
            // must be accepted and read back, also with hundreds of dictionary entries / three generations
            dict_seed_jobs(&mut out, &[1, 6, 7], if thorough { 2 } else { 1 });
            // coded compositions (columns / slices / strings over coded regions) across merge_regions from one, two and
            // three sources of different shapes: values held by a source must be accepted by the merged region
            let mut c = LifeCfg::new("C01");
            c.script = 8;
            c.clear = true;
            c.merge = true;
            c.coded_merges = true;
            c.n_forms = 2;
            life(&mut out, c, if thorough { 4 } else { 3 }, &[], &|i| i.coded, &|_, _| {});
            // Huffman-coded containers across generations: items arrive as slices and as read items of raw and
            // coded containers; a container merged from the live one must accept what was pushed into that one
            {
                use crate::m_huff::*;
                for p in [small_profiles(3).into_iter().find(|p| p.name == "counts[1, 2, 3]").unwrap(), fib_profile(6)] {
                    out.push(job(move || Box::new(HuffMachine::<u8>::new(p.clone(), 2)), Mode::Bfs(BfsCfg::new(if thorough { 3 } else { 2 })), false));
                }
            }
        }
        "C02" => {
            let mut c = LifeCfg::new("C02");
            c.clear = true;
            c.reserve_items = true;
            c.reserve_regions = true;
            // long default runs without deviations cross item-count thresholds (> 255, > 1024 items)
            let devs: &[(usize, usize, u8)] =
                if thorough { &[(256, 1, 0), (48, 2, 0), (32, 2, 1), (1100, 0, 0), (4200, 0, 1)] } else { &[(48, 1, 0), (20, 2, 1), (300, 0, 0), (700, 0, 1)] };
            life(&mut out, c, if thorough { 6 } else { 4 }, devs, &|_| true, &|_, _| {});
            if thorough {
                let mut c = LifeCfg::new("C02");
                c.clear = true;
                c.reserve_items = true;
                c.n_forms = 1;
                c.n_values = 3;
                c.prefill = 70_000;
                life(&mut out, c, 2, &[], &prefill_entry, &|_, _| {});
            }
            // coded regions after merge_regions (shared partial bytes, dictionary codes): their own
            // machines re-read every issued index after every step as well
            {
                use crate::m_huff::*;
                for p in [small_profiles(3).into_iter().find(|p| p.name == "counts[1, 2, 3]").unwrap(), fib_profile(6), fib_profile(10)] {
                    out.push(job(move || Box::new(HuffMachine::<u8>::new(p.clone(), 1)), Mode::Bfs(BfsCfg::new(if thorough { 3 } else { 2 })), false));
                }
                // 27-bit codes appended into a shared partial byte
                out.push(job(|| Box::new(HuffMachine::<u8>::new(fib_profile(28), 0)), Mode::Bfs(BfsCfg::new(if thorough { 2 } else { 1 })), false));
                use crate::m_dict::{Alphabet, DictCfg, DictMachine};
                for seed in [0u8, 1] {
                    let cfg = DictCfg { seed, alphabet: Alphabet::Relative, max_merges: 1 };
                    out.push(job(move || Box::new(DictMachine::new(cfg.clone())), Mode::Bfs(BfsCfg::new(if thorough { 4 } else { 3 })), false));
                }
            }
        }
        "C03" => {
            let devs: &[(usize, usize, u8)] = if thorough { &[(32, 2, 0), (256, 1, 1), (1100, 0, 0)] } else { &[(24, 1, 0), (48, 1, 1), (300, 0, 0)] };
            stacks(&mut out, StackOracle::Sequence, if thorough { 6 } else { 4 }, devs, 3);
        }
        "C09" => {
            let mut v = CloneJobs { out: &mut out, depth: if thorough { 8 } else { 5 }, max_clones: if thorough { 2 } else { 1 } };
            crate::catalogue::visit_all(&mut v);
            stacks(&mut out, StackOracle::Sequence, if thorough { 5 } else { 3 }, &[], 3);
            // clone_from between two coded Huffman containers with different code tables
            {
                use crate::m_huff::*;
                for p in [small_profiles(2).into_iter().find(|p| p.name == "counts[2, 1]").unwrap(), fib_profile(6), fib_profile(20)] {
                    out.push(job(move || Box::new(HuffMachine::<u8>::new(p.clone(), 0)), Mode::Bfs(BfsCfg::new(if thorough { 3 } else { 2 })), false));
                }
            }
        }
        "C04" => {
            let mut c = LifeCfg::new("C04");
            c.clear = true;
            c.clone_replace = true;
            c.serde_replace = true;
            c.merge = true;
            c.finite_only = true;
            c.coded_merges = true;
            c.use_large = false;
            c.n_values = 9;
            life(&mut out, c, if thorough { 5 } else { 3 }, if thorough { &[(32, 2, 0)] } else { &[(24, 1, 0)] }, &|i| i.strings, &|i, c| {
                // compositions of strings use their 4 structured values; plain string regions the 9 adversarial strings
                if i.name.starts_with("StringRegion") || i.name.starts_with("Collapse") || i.name.starts_with("Consecutive") {
                    c.use_large = true;
                }
            });
            // dictionary-coded storage with hundreds of entries / more than 64 KiB of dictionary / three generations
            dict_seed_jobs(&mut out, &[6, 7], if thorough { 2 } else { 1 });
            {
                // more than 2^20 items before the explored operations (clear, push, re-read)
                let mut c = LifeCfg::new("C04");
                c.clear = true;
                c.n_forms = 1;
                c.n_values = 3;
                c.prefill = (1 << 20) + 3;
                life(&mut out, c, 2, &[], &|i| prefill_entry(i) && i.strings, &|_, _| {});
            }
        }
        "C06" => {
            use crate::m_huff::*;
            let mut add8 = |p: Profile, depth: usize, merges: usize, out: &mut Vec<Job>| {
                let mut b = BfsCfg::new(depth);
                b.wall_cap_s = if thorough { 900.0 } else { 40.0 };
                out.push(job(move || Box::new(HuffMachine::<u8>::new(p.clone(), merges)), Mode::Bfs(b), false));
            };
            let add16 = |p: Profile, depth: usize, merges: usize, out: &mut Vec<Job>| {
                let mut b = BfsCfg::new(depth);
                b.wall_cap_s = if thorough { 900.0 } else { 40.0 };
                out.push(job(move || Box::new(HuffMachine::<u16>::new(p.clone(), merges)), Mode::Bfs(b), false));
            };
            let empty = Profile { name: "empty".into(), counts: vec![] };
            if thorough {
                for p in small_profiles(4) {
                    add8(p, 3, 1, &mut out);
                }
                for k in [6, 10, 12] {
                    add8(fib_profile(k), 3, 1, &mut out);
                }
                for k in [18, 24, 28] {
                    add8(fib_profile(k), 2, 1, &mut out);
                }
                add8(huge_total_profile(), 2, 0, &mut out);
                {
                    let p = small_profiles(3).into_iter().find(|p| p.name == "counts[1, 2, 3]").unwrap();
                    out.push(job(move || Box::new(HuffMachine::<u8>::new_raw(p.clone(), 2)), Mode::Bfs(BfsCfg::new(4)), false));
                }
                out.push(job(|| Box::new(HuffBuildMachine::<u32>::new(uniform_profile(140_000, 1))), Mode::Bfs(BfsCfg::new(1)), false));
                out.push(job(|| Box::new(HuffBuildMachine::<u32>::new(mixed_profile(70_000))), Mode::Bfs(BfsCfg::new(1)), false));
                add8(empty.clone(), 3, 2, &mut out);
                add16(uniform_profile(257, 1), 2, 1, &mut out);
                add16(uniform_profile(300, 2), 2, 1, &mut out);
                add16(mixed_profile(600), 2, 1, &mut out);
                add16(fib_profile(12), 3, 1, &mut out);
            } else {
                let all = small_profiles(4);
                for name in ["counts[1]", "counts[3]", "counts[1, 1]", "counts[2, 1]", "counts[1, 1, 1]", "counts[1, 2, 3]", "counts[1, 1, 1, 1]", "counts[3, 3, 1, 1]", "counts[3, 1, 1, 1]"] {
                    let p = all.iter().find(|p| p.name == name).unwrap().clone();
                    add8(p, 2, 1, &mut out);
                }
                add8(fib_profile(6), 2, 1, &mut out);
                add8(fib_profile(10), 2, 1, &mut out);
                add8(fib_profile(18), 1, 0, &mut out);
                add8(fib_profile(28), 1, 0, &mut out);
                add8(huge_total_profile(), 1, 0, &mut out);
                {
                    let p = small_profiles(3).into_iter().find(|p| p.name == "counts[1, 2, 3]").unwrap();
                    out.push(job(move || Box::new(HuffMachine::<u8>::new_raw(p.clone(), 1)), Mode::Bfs(BfsCfg::new(3)), false));
                }
                // more distinct symbols than a 16-bit quantity can number (needs a symbol type wider than u16)
                out.push(job(|| Box::new(HuffBuildMachine::<u32>::new(uniform_profile(65_600, 1))), Mode::Bfs(BfsCfg::new(1)), false));
                add8(empty.clone(), 2, 1, &mut out);
                add16(uniform_profile(257, 1), 1, 0, &mut out);
                add16(uniform_profile(300, 1), 2, 1, &mut out);
            }
        }
        "C07" => {
            use crate::m_dict::{Alphabet, DictCfg, DictMachine};
            let mut add = |seed: u8, alphabet: Alphabet, depth: usize, max_merges: usize| {
                let cfg = DictCfg { seed, alphabet, max_merges };
                let mut b = BfsCfg::new(depth);
                b.wall_cap_s = if thorough { 600.0 } else { 40.0 };
                b.max_states = 6_000_000;
                out.push(job(move || Box::new(DictMachine::new(cfg.clone())), Mode::Bfs(b), true));
            };
            if thorough {
                add(0, Alphabet::Relative, 6, 3);
                add(1, Alphabet::Relative, 5, 2);
                add(2, Alphabet::Relative, 5, 2);
                for seed in 0..3 {
                    add(seed, Alphabet::AllBytes, 2, 0);
                }
                for seed in 3..10 {
                    add(seed, Alphabet::Relative, 3, 1);
                }
            } else {
                add(0, Alphabet::Relative, 4, 2);
                add(1, Alphabet::Relative, 3, 1);
                add(2, Alphabet::Relative, 3, 1);
                for seed in 0..3 {
                    add(seed, Alphabet::AllBytes, 1, 0);
                }
                for seed in 3..10 {
                    add(seed, Alphabet::Relative, 1, 1);
                }
            }
        }
        "C08" => {
            let mut c = LifeCfg::new("C08");
            c.twin = Twin::FreshAtClear;
            c.clear = true;
            c.merge = true;
            c.reserve_regions = true;
            c.n_forms = 2;
            c.n_values = 3;
            let devs: &[(usize, usize, u8)] = if thorough { &[(48, 2, 0), (48, 2, 1)] } else { &[(20, 2, 1)] };
            life(&mut out, c, if thorough { 6 } else { 5 }, devs, &|_| true, &|_, _| {});
            {
                // a large history (70 000 items) before the clear
                let mut c = LifeCfg::new("C08");
                c.twin = Twin::FreshAtClear;
                c.clear = true;
                c.n_forms = 1;
                c.n_values = 3;
                c.prefill = 70_000;
                life(&mut out, c.clone(), 2, &[], &prefill_entry, &|_, _| {});
                // and more than 2^20 items
                c.prefill = (1 << 20) + 3;
                life(&mut out, c, 2, &[], &prefill_entry, &|_, _| {});
            }
            // FlatStack::clear, incl. stacks whose region was built by merge_capacity (coded regions)
            stacks(&mut out, StackOracle::Sequence, if thorough { 5 } else { 4 }, &[], 3);
            // dictionary-coded regions: a cleared region and a fresh one are told apart only by what a region merged
            // from them learns; small alphabet from the start, and a cleared region that then sees > 1024 pushes
            {
                use crate::m_dict::{Alphabet, DictCfg, DictMachine};
                for (seed, depth, merges) in [(0u8, if thorough { 5 } else { 4 }, 2usize), (1, if thorough { 4 } else { 3 }, 2), (10, if thorough { 2 } else { 1 }, 1)] {
                    let cfg = DictCfg { seed, alphabet: Alphabet::Relative, max_merges: merges };
                    out.push(job(move || Box::new(DictMachine::new(cfg.clone())), Mode::Bfs(BfsCfg::new(depth)), false));
                }
            }
        }
        "C10" => {
            let mut c = LifeCfg::new("C10");
            c.twin = Twin::NeverReserve;
            c.clear = true;
            c.merge = true;
            c.coded_merges = true;
            c.reserve_regions = true;
            c.reserve_items = true;
            c.n_forms = 2;
            c.n_values = 3;
            let devs: &[(usize, usize, u8)] = if thorough { &[(48, 2, 0)] } else { &[(24, 1, 0)] };
            life(&mut out, c, if thorough { 5 } else { 4 }, devs, &|_| true, &|_, _| {});
            stacks(&mut out, StackOracle::Presize, if thorough { 5 } else { 4 }, &[], 3);
            dict_seed_jobs(&mut out, &[6, 7], if thorough { 2 } else { 1 });
            // Huffman-coded containers across generations, items arriving as read items of other coded containers
            {
                use crate::m_huff::*;
                for p in [small_profiles(3).into_iter().find(|p| p.name == "counts[1, 2, 3]").unwrap(), fib_profile(6)] {
                    out.push(job(move || Box::new(HuffMachine::<u8>::new(p.clone(), 2)), Mode::Bfs(BfsCfg::new(if thorough { 3 } else { 2 })), false));
                }
            }
        }
        "C11" => {
            let mut c = LifeCfg::new("C11");
            c.clear = true;
            c.merge = true;
            c.clone_replace = true;
            c.serde_replace = true;
            c.finite_only = false;
            c.o_model = true;
            c.exact_total = true;
            c.n_values = 3;
            c.n_forms = 2;
            let devs: &[(usize, usize, u8)] = if thorough { &[(48, 2, 1)] } else { &[(24, 1, 1)] };
            life(&mut out, c, if thorough { 7 } else { 5 }, devs, &|i| i.collapse, &|i, c| {
                // NaN is part of these alphabets (never-equal values); JSON cannot carry it
                if i.name.contains("f64") {
                    c.serde_replace = false;
                }
            });
            // collapsing over a Huffman container: equality is decided between differently represented (coded) items
            out.push(job(|| Box::new(crate::m_huff::HuffCollapseMachine::new()), Mode::Bfs(BfsCfg::new(if thorough { 4 } else { 3 })), false));
        }
        "C17" => {
            let mut v = AllocJobs { out: &mut out, thorough };
            crate::catalogue::visit_all(&mut v);
            let mut v = StackAllocJobs { out: &mut out, thorough };
            crate::catalogue::visit_stacks(&mut v);
        }
        "C18" => {
            let mut c = LifeCfg::new("C18");
            c.clear = true;
            c.merge = true;
            c.reserve_items = true;
            c.o_model = true;
            c.n_values = 4;
            c.n_forms = 2;
            // the long runs cross the heavy-hitter summary's compaction in dictionary-coded regions (> 1024 pushes)
            let devs: &[(usize, usize, u8)] = if thorough { &[(48, 2, 0), (3000, 0, 0)] } else { &[(24, 1, 0), (1500, 0, 0)] };
            life(&mut out, c, if thorough { 5 } else { 4 }, devs, &|i| i.has_heap, &|_, _| {});
            stacks(&mut out, StackOracle::Sequence, if thorough { 5 } else { 3 }, &[], 3);
            // one allocation of more than 2^26 elements, then clear
            out.push(job(
                || Box::new(crate::m_alloc::HugeClearMachine::<crate::spec::Owned<u8>>::new(|n| vec![7u8; n])),
                Mode::Bfs(BfsCfg::new(2)),
                false,
            ));
            out.push(job(
                || Box::new(crate::m_alloc::HugeClearMachine::<crate::spec::Str<crate::spec::Owned<u8>>>::new(|n| "x".repeat(n))),
                Mode::Bfs(BfsCfg::new(2)),
                false,
            ));
            // one very wide row (thousands of columns), then clear
            {
                use crate::spec::{Cols, Consec, Mirror, Owned, Str};
                type IO = flatcontainer::impls::index::IndexOptimized;
                for n in [1030usize, 5000, 70_000] {
                    out.push(job(
                        move || Box::new(crate::m_alloc::HugeClearMachine::<Cols<Consec<Str<Owned<u8>>, IO>, IO>>::sized(|n| (0..n).map(|i| format!("c{i}")).collect(), n, "one row with thousands of cells")),
                        Mode::Bfs(BfsCfg::new(2)),
                        false,
                    ));
                    out.push(job(
                        move || Box::new(crate::m_alloc::HugeClearMachine::<Cols<Mirror<u8>, IO>>::sized(|n| (0..n).map(|i| i as u8).collect(), n, "one row with thousands of cells")),
                        Mode::Bfs(BfsCfg::new(2)),
                        false,
                    ));
                }
            }
        }
        "C12" => {
            {
                // regions returned by merge_regions over coded columns / slices, from up to three sources of different
                // shapes: covered rows must be accepted and numbered 0, 1, 2, ...
                let mut c = LifeCfg::new("C12");
                c.script = 8;
                c.clear = true;
                c.merge = true;
                c.coded_merges = true;
                c.o_dense = true;
                c.n_forms = 2;
                life(&mut out, c, if thorough { 4 } else { 3 }, &[], &|i| i.coded && i.dense, &|_, _| {});
            }
            let mut c = LifeCfg::new("C12");
            c.clear = true;
            c.merge = true;
            c.o_dense = true;
            c.o_model = true;
            c.n_forms = usize::MAX;
            let devs: &[(usize, usize, u8)] = if thorough { &[(64, 2, 0)] } else { &[(32, 1, 0)] };
            life(&mut out, c, if thorough { 7 } else { 5 }, devs, &|i| i.dense, &|_, _| {});
        }
        "C13" => {
            let mut c = LifeCfg::new("C13");
            c.o_positions = true;
            c.n_forms = 1;
            c.clear = true;
            life(&mut out, c, if thorough { 4 } else { 3 }, &[], &|i| i.positional, &|_, _| {});
            // every input form (read items of other regions, borrowed items, iterators): what a form stores decides
            // what the accessors of the neighbouring items can reach
            let mut c = LifeCfg::new("C13");
            c.o_positions = true;
            c.script = 7;
            c.n_forms = usize::MAX;
            c.n_values = 3;
            life(&mut out, c, if thorough { 4 } else { 3 }, &[], &|i| i.positional && !i.zst, &|_, _| {});
            // FlatStack::get(i) for i >= len must panic, for every index container
            stacks(&mut out, StackOracle::Sequence, if thorough { 4 } else { 3 }, &[], 3);
        }
        "C14" => {
            let mut c = LifeCfg::new("C14");
            c.o_owned_laws = true;
            c.clone_replace = true;
            c.n_forms = usize::MAX;
            life(&mut out, c, if thorough { 4 } else { 2 }, &[], &|_| true, &|_, _| {});
            // IntoOwned laws on Huffman-encoded items (codes longer than a byte included)
            {
                use crate::m_huff::*;
                out.push(job(|| Box::new(HuffMachine::<u8>::new(fib_profile(10), 0)), Mode::Bfs(BfsCfg::new(if thorough { 2 } else { 1 })), false));
                out.push(job(|| Box::new(HuffMachine::<u16>::new(uniform_profile(257, 1), 0)), Mode::Bfs(BfsCfg::new(if thorough { 2 } else { 1 })), false));
            }
        }
        "C15" => {
            let mut c = LifeCfg::new("C15");
            c.o_order = true;
            c.n_values = 5;
            c.n_forms = 1;
            life(&mut out, c, if thorough { 5 } else { 3 }, &[], &|i| i.ordered, &|_, _| {});
            // long slices differing in exactly one position, every position, lengths around 256 / 512 / 1024
            out.push(job(|| Box::new(crate::m_cmp::SliceCmpMachine::new()), Mode::Bfs(BfsCfg::new(1)), false));
            use crate::m_huff::*;
            // fib12 / fib18: codes longer than one / two bytes for the compared symbols
            let mut profiles = vec![fib_profile(3), fib_profile(6), uniform_profile(3, 1), fib_profile(12)];
            if thorough {
                profiles.extend(small_profiles(3));
                profiles.push(fib_profile(18));
                profiles.push(uniform_profile(300, 1));
            } else {
                profiles.extend(small_profiles(2));
            }
            for p in profiles {
                let p2 = p.clone();
                out.push(job(move || Box::new(HuffCmpMachine::<u8>::new(p.clone())), Mode::Bfs(BfsCfg::new(1)), false));
                if p2.name.starts_with("uniform") || p2.name == "fib12" || p2.name == "fib18" {
                    out.push(job(move || Box::new(HuffCmpMachine::<u16>::new(p2.clone())), Mode::Bfs(BfsCfg::new(1)), false));
                }
            }
        }
        "C16" => {
            let mut c = LifeCfg::new("C16");
            c.twin = Twin::SerdeLockstep;
            c.serde_twin = true;
            c.finite_only = true;
            c.clear = true;
            c.n_forms = 2;
            c.n_values = 3;
            life(&mut out, c, if thorough { 6 } else { 4 }, if thorough { &[(32, 2, 1)] } else { &[(16, 1, 1)] }, &|i| i.serde && !i.zst, &|_, _| {});
            let d = if thorough { 5 } else { 3 };
            idx_jobs::<Stride>(&mut out, IdxOracle::Serde, d + 1, &[], &[]);
            idx_jobs::<IndexList<Vec<u32>, Vec<u64>>>(&mut out, IdxOracle::Serde, d, &[], &[]);
            idx_jobs::<IndexOptimized>(&mut out, IdxOracle::Serde, d, &[], &[]);
            idx_jobs::<Vec<usize>>(&mut out, IdxOracle::Serde, d, &[], &[]);
            stacks(&mut out, StackOracle::Serde, if thorough { 5 } else { 4 }, &[], 3);
        }
        "C20" => {
            let mut c = LifeCfg::new("C20");
            c.twin = Twin::CanonForm;
            c.clear = true;
            life(&mut out, c, if thorough { 5 } else { 3 }, &[], &|i| i.n_forms > 1, &|_, _| {});
            // Huffman containers: slices and raw / coded / borrowed read items of the same value must leave the same
            // statistics behind (decided at the next merge_regions against the symbols that were pushed), from a raw and
            // from a coded start
            {
                use crate::m_huff::*;
                let p = small_profiles(3).into_iter().find(|p| p.name == "counts[1, 2, 3]").unwrap();
                let p2 = p.clone();
                out.push(job(move || Box::new(HuffMachine::<u8>::new_raw(p.clone(), 1)), Mode::Bfs(BfsCfg::new(if thorough { 4 } else { 3 })), false));
                out.push(job(move || Box::new(HuffMachine::<u8>::new(p2.clone(), 1)), Mode::Bfs(BfsCfg::new(if thorough { 3 } else { 2 })), false));
            }
        }
        _ => {}
    }
    out
}
