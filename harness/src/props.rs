//! Property -> machines (jobs) table.

use crate::engine::{BfsCfg, DevCfg, Machine};
use crate::m_index::{IdxMachine, IdxOracle, IdxSubject};
use crate::{Job, Mode};
use flatcontainer::impls::index::{IndexList, IndexOptimized, Stride};

pub const ALL: &[&str] = &[
    "C01", "C02", "C03", "C04", "C05", "C06", "C07", "C08", "C09", "C10", "C11", "C12", "C13", "C14", "C15", "C16",
    "C17", "C18", "C19", "C20",
];

fn job<F: Fn() -> Box<dyn Machine> + Sync + Send + 'static>(f: F, mode: Mode, big: bool) -> Job {
    Job { factory: Box::new(f), mode, big }
}

fn idx_jobs<C: IdxSubject>(out: &mut Vec<Job>, oracle: IdxOracle, depth: usize, devs: &[(usize, usize)], scripts: &[u8]) {
    let mut cfg = BfsCfg::new(depth);
    cfg.wall_cap_s = 420.0;
    out.push(job(move || Box::new(IdxMachine::<C>::new(oracle, 0)), Mode::Bfs(cfg), true));
    for &script in scripts {
        for &(n, k) in devs {
            out.push(job(move || Box::new(IdxMachine::<C>::new(oracle, script)), Mode::Dev(DevCfg::new(n, k)), true));
        }
    }
}

pub fn jobs(prop: &str, tier: &str) -> Vec<Job> {
    let thorough = tier == "thorough";
    let mut out = Vec::new();
    match prop {
        "C05" => {
            let (d, devs): (usize, &[(usize, usize)]) = if thorough { (6, &[(64, 2), (256, 1)]) } else { (4, &[(24, 2), (64, 1)]) };
            let scripts: &[u8] = &[0, 1, 2, 3];
            idx_jobs::<Stride>(&mut out, IdxOracle::Faithful, d + 1, devs, scripts);
            idx_jobs::<IndexList<Vec<u32>, Vec<u64>>>(&mut out, IdxOracle::Faithful, d, devs, scripts);
            idx_jobs::<IndexOptimized>(&mut out, IdxOracle::Faithful, d, devs, scripts);
            idx_jobs::<Vec<usize>>(&mut out, IdxOracle::Faithful, d.min(4), &devs[..1], &[0]);
        }
        "C19" => {
            let (d, devs): (usize, &[(usize, usize)]) = if thorough { (6, &[(64, 2), (512, 1)]) } else { (4, &[(24, 2), (64, 1)]) };
            let scripts: &[u8] = &[0, 1, 2, 3];
            idx_jobs::<IndexList<Vec<u32>, Vec<u64>>>(&mut out, IdxOracle::Space, d, devs, scripts);
            idx_jobs::<IndexOptimized>(&mut out, IdxOracle::Space, d, devs, scripts);
        }
        _ => {}
    }
    out
}
