//! C09: clone / clone_from. Two sides `a` and `b`; `b` comes into existence by `a.clone()` or by
//! `clone_from(&a)` into a destination pre-filled by an unrelated history; afterwards both sides
//! evolve independently and each is checked against its own model after every step.

use crate::engine::{guard, Machine, OpId, Step};
use crate::spec::*;
use flatcontainer::Region;

struct Side<S: Spec> {
    r: S::R,
    issued: Vec<(Idx<S>, usize)>,
}

#[derive(Clone, Debug)]
enum OpDef {
    PushA(usize, usize),
    PushB(usize, usize),
    ClearA,
    ClearB,
    Clone,
    CloneFrom(u8),
    /// a := b.clone() (copies of copies)
    CloneBack,
}

pub struct CloneMachine<S: Spec> {
    e: Entry<S>,
    values: Vec<S::V>,
    ops: Vec<OpDef>,
    a: Side<S>,
    b: Option<Side<S>>,
    clones: usize,
    max_clones: usize,
    tags: Vec<String>,
}

impl<S: Spec> CloneMachine<S> {
    pub fn new(e: Entry<S>, n_values: usize, n_forms: usize, max_clones: usize) -> Self {
        let values: Vec<S::V> = e.values.iter().take(n_values).cloned().collect();
        let nf = e.forms.len().min(n_forms);
        let mut ops = Vec::new();
        for v in 0..values.len() {
            for f in 0..nf {
                ops.push(OpDef::PushA(v, f));
            }
        }
        for v in 0..values.len() {
            for f in 0..nf {
                ops.push(OpDef::PushB(v, f));
            }
        }
        ops.extend([OpDef::ClearA, OpDef::ClearB, OpDef::Clone, OpDef::CloneBack]);
        for k in 0..5 {
            ops.push(OpDef::CloneFrom(k));
        }
        CloneMachine { e, values, ops, a: Side { r: Default::default(), issued: vec![] }, b: None, clones: 0, max_clones, tags: vec![] }
    }

    fn prefilled(&self, k: u8) -> S::R {
        let mut r: S::R = Default::default();
        match k {
            0 => {}
            1 => {
                let _ = S::canon_push(&mut r, &self.e.values[0]);
            }
            2 => {
                for _ in 0..2 {
                    for v in &self.e.values {
                        let _ = S::canon_push(&mut r, v);
                    }
                }
            }
            4 => {
                // an empty region built by merge_regions (coded regions: it carries a code table / dictionary)
                let mut src: S::R = Default::default();
                for v in self.e.values.iter().take(2) {
                    let _ = S::canon_push(&mut src, v);
                }
                r = S::R::merge_regions(std::iter::once(&src));
            }
            _ => {
                // widest value pushed and cleared again: structure (columns, spilled containers) remains
                if let Some(v) = self.e.values.last() {
                    let _ = S::canon_push(&mut r, v);
                    let _ = S::canon_push(&mut r, v);
                }
                r.clear();
            }
        }
        r
    }

    fn check_side(&self, side: &Side<S>, who: &str) -> Result<(), String> {
        for (k, (idx, val)) in side.issued.iter().enumerate() {
            let v = &self.values[*val];
            let r = &side.r;
            match guard(|| S::check(r.index(*idx), v)) {
                Ok(Ok(())) => {}
                Ok(Err(e)) => return Err(format!("{who}: item #{k} (index {}, pushed {}): {e}", idx_str(idx), S::show(v))),
                Err(p) => return Err(format!("{who}: reading item #{k} (pushed {}) panicked: {p}", S::show(v))),
            }
        }
        Ok(())
    }

    /// Both copies answer every further push identically (probed on scratch clones).
    fn same_answers(&self, x: &S::R, y: &S::R, what: &str) -> Result<(), String> {
        let cl = self.e.clone_fn.unwrap();
        for v in &self.e.values {
            let (mut sx, mut sy) = (cl(x), cl(y));
            let ix = guard(|| S::canon_push(&mut sx, v)).map_err(|p| format!("{what}: push({}) on the original panicked: {p}", S::show(v)))?;
            let iy = guard(|| S::canon_push(&mut sy, v)).map_err(|p| format!("{what}: push({}) on the copy panicked: {p}", S::show(v)))?;
            if idx_str(&ix) != idx_str(&iy) {
                return Err(format!(
                    "{what}: the same push({}) returns index {} on the original and {} on the copy",
                    S::show(v),
                    idx_str(&ix),
                    idx_str(&iy)
                ));
            }
        }
        if let Some(r) = self.e.render {
            let (dx, dy) = (r(x), r(y));
            if dx != dy {
                return Err(format!("{what}: copy differs from the original:\n   original: {dx}\n   copy:     {dy}"));
            }
        }
        Ok(())
    }
}

impl<S: Spec> Machine for CloneMachine<S> {
    fn name(&self) -> String {
        format!("clone/{}", S::name())
    }
    fn reset(&mut self) {
        self.a = Side { r: Default::default(), issued: vec![] };
        self.b = None;
        self.clones = 0;
        self.tags.clear();
    }
    fn enabled(&self) -> Vec<OpId> {
        (0..self.ops.len() as u32)
            .filter(|o| match &self.ops[*o as usize] {
                OpDef::PushB(..) | OpDef::ClearB | OpDef::CloneBack => self.b.is_some(),
                OpDef::Clone | OpDef::CloneFrom(_) => self.clones < self.max_clones,
                _ => true,
            })
            .filter(|o| !matches!(&self.ops[*o as usize], OpDef::CloneBack) || self.clones < self.max_clones)
            .collect()
    }
    fn describe(&self, op: OpId) -> String {
        match &self.ops[op as usize] {
            OpDef::PushA(v, f) => format!("a.push({}) as {}", S::show(&self.values[*v]), self.e.forms[*f].name),
            OpDef::PushB(v, f) => format!("b.push({}) as {}", S::show(&self.values[*v]), self.e.forms[*f].name),
            OpDef::ClearA => "a.clear()".into(),
            OpDef::ClearB => "b.clear()".into(),
            OpDef::Clone => "b = a.clone()".into(),
            OpDef::CloneBack => "a = b.clone()".into(),
            OpDef::CloneFrom(k) => format!(
                "b = <{}>; b.clone_from(&a)",
                ["Default", "one item", "all values twice", "widest value twice, then cleared", "merge_regions([region holding the first two values])"][*k as usize]
            ),
        }
    }
    fn step(&mut self, op: OpId) -> Step {
        let what = self.describe(op);
        match self.ops[op as usize].clone() {
            OpDef::PushA(v, f) | OpDef::PushB(v, f) => {
                let on_a = matches!(self.ops[op as usize], OpDef::PushA(..));
                let val = self.values[v].clone();
                let ff = self.e.forms[f].f;
                let side = if on_a { &mut self.a } else { self.b.as_mut().unwrap() };
                let r = &mut side.r;
                match guard(|| ff(r, &val)) {
                    Ok(i) => side.issued.push((i, v)),
                    Err(p) if self.e.zst && crate::engine::exhaustion(&p) => return Step::Refused(p),
                    Err(p) => return Step::Violation(format!("{what} panicked: {p}")),
                }
            }
            OpDef::ClearA => {
                self.a.r.clear();
                self.a.issued.clear();
            }
            OpDef::ClearB => {
                let b = self.b.as_mut().unwrap();
                b.r.clear();
                b.issued.clear();
            }
            OpDef::Clone | OpDef::CloneBack => {
                let back = matches!(self.ops[op as usize], OpDef::CloneBack);
                let cl = self.e.clone_fn.unwrap();
                let src = if back { self.b.as_ref().unwrap() } else { &self.a };
                let sr = &src.r;
                let copy = match guard(|| cl(sr)) {
                    Ok(c) => c,
                    Err(p) => return Step::Violation(format!("clone() panicked: {p}")),
                };
                if let Err(e) = self.same_answers(&src.r, &copy, "after clone()") {
                    return Step::Violation(e);
                }
                let side = Side { r: copy, issued: src.issued.clone() };
                if back {
                    self.a = side;
                } else {
                    self.b = Some(side);
                }
                self.clones += 1;
            }
            OpDef::CloneFrom(k) => {
                let cf = self.e.clone_from_fn.unwrap();
                let cl = self.e.clone_fn.unwrap();
                let mut dst = self.prefilled(k);
                let a = &self.a.r;
                if let Err(p) = guard(|| cf(&mut dst, a)) {
                    return Step::Violation(format!("clone_from panicked: {p}"));
                }
                if let Err(e) = self.same_answers(&self.a.r, &dst, "after clone_from()") {
                    return Step::Violation(e);
                }
                // clone_from must be observably the same as clone
                let plain = cl(&self.a.r);
                if let Err(e) = self.same_answers(&plain, &dst, "clone() vs clone_from()") {
                    return Step::Violation(e);
                }
                self.b = Some(Side { r: dst, issued: self.a.issued.clone() });
                self.clones += 1;
                self.tags.push(format!("clone_from:prefill{k}"));
            }
        }
        if let Err(e) = self.check_side(&self.a, "a") {
            return Step::Violation(format!("after {what}: {e}"));
        }
        if let Some(b) = &self.b {
            if let Err(e) = self.check_side(b, "b") {
                return Step::Violation(format!("after {what}: {e}"));
            }
            self.tags.push(format!("both-checked:a{}:b{}", self.a.issued.len().min(3), b.issued.len().min(3)));
        }
        Step::Ok
    }
    fn fingerprint(&self) -> Option<String> {
        let r = self.e.render?;
        let mut s = format!("{}|", r(&self.a.r));
        for (i, v) in &self.a.issued {
            s.push_str(&format!("{}:{v},", idx_str(i)));
        }
        s.push_str(&format!("|{}|", self.clones));
        if let Some(b) = &self.b {
            s.push_str(&r(&b.r));
            for (i, v) in &b.issued {
                s.push_str(&format!("{}:{v},", idx_str(i)));
            }
        }
        Some(s)
    }
    fn drain_tags(&mut self) -> Vec<String> {
        std::mem::take(&mut self.tags)
    }
}
