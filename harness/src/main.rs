//! fcmc — flatcontainer model checker (bounded-exhaustive exploration of the real code).

use fcmc::engine::{self, Report, ViolationRec};
use fcmc::{alloc_count, props, selftest, Job, Mode};
use serde_json::json;
use std::collections::BTreeMap;
use std::sync::Mutex;
use std::time::Instant;

#[global_allocator]
static GLOBAL: alloc_count::Counting = alloc_count::Counting;

fn profile_name() -> &'static str {
    if cfg!(debug_assertions) {
        "checked"
    } else {
        "wrapping"
    }
}

fn overflow_checks_active() -> bool {
    let x = std::hint::black_box(u8::MAX);
    std::panic::catch_unwind(|| {
        let y = x + std::hint::black_box(1);
        std::hint::black_box(y);
    })
    .is_err()
}

fn run_job(job: &Job, threads: usize) -> Report {
    match &job.mode {
        Mode::Bfs(cfg) => {
            let mut cfg = cfg.clone();
            cfg.threads = threads;
            engine::bfs(&*job.factory, &cfg)
        }
        Mode::Dev(cfg) => {
            let mut cfg = cfg.clone();
            cfg.threads = threads;
            engine::deviations(&*job.factory, &cfg)
        }
    }
}

fn hash_str(s: &str) -> u64 {
    use std::hash::{Hash, Hasher};
    let mut h = std::collections::hash_map::DefaultHasher::new();
    s.hash(&mut h);
    h.finish()
}

fn write_replay(prop: &str, v: &ViolationRec, dir: &str) -> String {
    let key = format!("{}|{:?}|{}", v.machine, v.ops, profile_name());
    let path = format!("{dir}/{prop}-{}-{:016x}.json", profile_name(), hash_str(&key));
    let body = json!({
        "property": prop,
        "profile": profile_name(),
        "machine": v.machine,
        "mode": v.mode,
        "ops": v.ops,
        "history": v.descs,
        "message": v.message,
        "as_test": format!("// machine {}\n// {}\n// expected: {}", v.machine, v.descs.join("\n// "), v.message),
    });
    let _ = std::fs::create_dir_all(dir);
    let _ = std::fs::write(&path, serde_json::to_string_pretty(&body).unwrap());
    path
}

fn cmd_run(prop: &str, tier: &str, out: &str, replay_dir: &str) -> i32 {
    let t0 = Instant::now();
    let jobs = props::jobs(prop, tier);
    if jobs.is_empty() {
        eprintln!("no machines for property {prop}");
        return 2;
    }
    let threads = engine::threads();
    let mut reports: Vec<Report> = Vec::new();
    let (big, small): (Vec<&Job>, Vec<&Job>) = jobs.iter().partition(|j| j.big);
    for j in big {
        reports.push(run_job(j, threads));
    }
    if !small.is_empty() {
        // long scripted runs first (popped from the end), so that the tail of the pool is short
        let mut order: Vec<(usize, &&Job)> = small.iter().enumerate().collect();
        order.sort_by_key(|(_, j)| matches!(j.mode, Mode::Dev(_)));
        let queue = Mutex::new(order);
        let results: Mutex<Vec<(usize, Report)>> = Mutex::new(Vec::new());
        std::thread::scope(|s| {
            for _ in 0..threads.min(small.len()) {
                std::thread::Builder::new()
                    .stack_size(64 << 20)
                    .spawn_scoped(s, || loop {
                        let item = queue.lock().unwrap().pop();
                        match item {
                            Some((i, j)) => {
                                let r = run_job(j, 1);
                                results.lock().unwrap().push((i, r));
                            }
                            None => break,
                        }
                    })
                    .unwrap();
            }
        });
        let mut rs = results.into_inner().unwrap();
        rs.sort_by_key(|r| r.0);
        reports.extend(rs.into_iter().map(|r| r.1));
    }
    let mut viol = Vec::new();
    let mut errors = Vec::new();
    let mut machines = Vec::new();
    let (mut states, mut transitions, mut executions, mut refused, mut replayed) = (0u64, 0u64, 0u64, 0u64, 0u64);
    let mut tags: BTreeMap<String, u64> = BTreeMap::new();
    let mut samples = Vec::new();
    let mut caps = Vec::new();
    let mut exhaustive = true;
    for r in &reports {
        states += r.states;
        transitions += r.transitions;
        executions += r.executions;
        refused += r.refused;
        replayed += r.replayed_steps;
        exhaustive &= r.exhaustive;
        for (k, v) in &r.tags {
            *tags.entry(k.clone()).or_insert(0) += v;
        }
        for c in &r.caps {
            caps.push(format!("{}: {}", r.machine, c));
        }
        if let Some(s) = r.samples.last() {
            samples.push(format!("{}: {}", r.machine, s));
        }
        for v in &r.violations {
            let path = write_replay(prop, v, replay_dir);
            viol.push(json!({"machine": v.machine, "mode": v.mode, "history": v.descs, "ops": v.ops, "message": v.message, "replay": path}));
        }
        for e in &r.machinery_errors {
            errors.push(e.clone());
        }
        machines.push(json!({
            "machine": r.machine, "mode": r.mode, "bound": r.bound, "states": r.states,
            "transitions": r.transitions, "refused": r.refused, "exhaustive": r.exhaustive,
            "violations": r.violations.len(), "wall_s": (r.wall_s * 1000.0).round() / 1000.0,
        }));
    }
    // a handful of the longest sampled histories across machines
    let mut top_samples = samples.clone();
    top_samples.sort_by_key(|x| std::cmp::Reverse(x.len()));
    top_samples.truncate(8);
    let body = json!({
        "property": prop,
        "tier": tier,
        "profile": profile_name(),
        "overflow_checks": overflow_checks_active(),
        "debug_assertions": cfg!(debug_assertions),
        "states": states,
        "transitions": transitions,
        "executions": executions,
        "replayed_steps": replayed,
        "refused": refused,
        "exhaustive": exhaustive,
        "caps": caps,
        "tags": tags,
        "samples": top_samples,
        "machines": machines,
        "violations": viol,
        "machinery_errors": errors,
        "wall_s": t0.elapsed().as_secs_f64(),
    });
    std::fs::write(out, serde_json::to_string_pretty(&body).unwrap()).expect("write out");
    if !errors.is_empty() {
        for e in errors.iter().take(5) {
            eprintln!("MACHINERY ERROR: {e}");
        }
        return 2;
    }
    if viol.is_empty() {
        0
    } else {
        1
    }
}

fn cmd_replay(path: &str) -> i32 {
    let text = match std::fs::read_to_string(path) {
        Ok(t) => t,
        Err(e) => {
            eprintln!("cannot read {path}: {e}");
            return 2;
        }
    };
    let v: serde_json::Value = serde_json::from_str(&text).expect("replay file is not JSON");
    let prop = v["property"].as_str().unwrap_or("");
    let machine = v["machine"].as_str().unwrap_or("");
    let profile = v["profile"].as_str().unwrap_or("");
    if profile != profile_name() {
        println!("SKIP profile {} (this binary is {})", profile, profile_name());
        return 3;
    }
    let ops: Vec<u32> = v["ops"].as_array().map(|a| a.iter().map(|x| x.as_u64().unwrap() as u32).collect()).unwrap_or_default();
    let mut jobs = props::jobs(prop, "quick");
    jobs.extend(props::jobs(prop, "thorough"));
    for j in &jobs {
        let m = (j.factory)();
        if m.name() == machine {
            let a = engine::replay_history(&*j.factory, &ops);
            let b = engine::replay_history(&*j.factory, &ops);
            if a.result != b.result || a.descs != b.descs {
                println!("NONDETERMINISTIC replay: {:?} vs {:?}", a.result, b.result);
                return 2;
            }
            println!("machine: {machine} [{profile}]");
            for (i, d) in a.descs.iter().enumerate() {
                println!("  {i:3}: {d}");
            }
            println!("result: {}", a.result);
            return if a.violated { 1 } else { 0 };
        }
    }
    eprintln!("machine {machine} not found for property {prop}");
    2
}

/// RSS cap inside the engine: exceeding it is a machinery failure (exit 2), never a verdict.
fn spawn_rss_watchdog() {
    let cap_gb: u64 = std::env::var("FCMC_MAX_RSS_GB").ok().and_then(|s| s.parse().ok()).unwrap_or(24);
    std::thread::spawn(move || loop {
        std::thread::sleep(std::time::Duration::from_millis(500));
        if let Ok(s) = std::fs::read_to_string("/proc/self/statm") {
            let pages: u64 = s.split_whitespace().nth(1).and_then(|x| x.parse().ok()).unwrap_or(0);
            if pages * 4096 > cap_gb << 30 {
                eprintln!("MACHINERY ERROR: resident set exceeds the cap of {cap_gb} GiB; aborting (no verdict)");
                std::process::exit(2);
            }
        }
    });
}

fn main() {
    engine::install_panic_hook();
    spawn_rss_watchdog();
    let args: Vec<String> = std::env::args().collect();
    let get = |flag: &str| -> Option<String> {
        args.iter().position(|a| a == flag).and_then(|i| args.get(i + 1).cloned())
    };
    let code = match args.get(1).map(|s| s.as_str()) {
        Some("run") => {
            let prop = args.get(2).expect("property id");
            let tier = get("--tier").unwrap_or_else(|| "quick".into());
            let out = get("--out").unwrap_or_else(|| format!("/tmp/fcmc-{prop}-{}.json", profile_name()));
            let rd = get("--replay-dir").unwrap_or_else(|| "/verif/replays".into());
            cmd_run(prop, &tier, &out, &rd)
        }
        Some("replay") => cmd_replay(args.get(2).expect("replay file")),
        Some("selftest") => match selftest::run() {
            Ok(m) => {
                println!("{m}");
                0
            }
            Err(e) => {
                eprintln!("SELFTEST FAILED: {e}");
                2
            }
        },
        Some("list") => {
            for p in props::ALL {
                for tier in ["quick", "thorough"] {
                    let jobs = props::jobs(p, tier);
                    println!("{p} {tier}: {} machines", jobs.len());
                }
            }
            0
        }
        _ => {
            eprintln!("usage: fcmc run <Cxx> --tier quick|thorough --out f.json | fcmc replay <file> | fcmc list");
            2
        }
    };
    std::process::exit(code);
}
