//! C15 on long slices: comparisons of read slices agree with the comparisons of the owned vectors for every
//! position of a single differing element, for lengths around 256 / 512 / 1024 (odd and even).

use crate::engine::{guard, Machine, OpId, Step};
use flatcontainer::{MirrorRegion, Push, Region, SliceRegion};

const LENS: [usize; 8] = [63, 64, 255, 256, 257, 300, 513, 1025];

pub struct SliceCmpMachine {
    done: Vec<usize>,
    tags: Vec<String>,
}

impl SliceCmpMachine {
    pub fn new() -> Self {
        SliceCmpMachine { done: vec![], tags: vec![] }
    }
}

impl Machine for SliceCmpMachine {
    fn name(&self) -> String {
        "compare/SliceRegion<MirrorRegion<u8>>/single-difference".into()
    }
    fn reset(&mut self) {
        self.done.clear();
    }
    fn enabled(&self) -> Vec<OpId> {
        (0..LENS.len() as u32).filter(|k| !self.done.contains(&(*k as usize))).collect()
    }
    fn describe(&self, op: OpId) -> String {
        let l = LENS[op as usize];
        format!("push a {l}-element slice and its {l} variants differing in one position; compare every variant with it")
    }
    fn step(&mut self, op: OpId) -> Step {
        self.done.push(op as usize);
        let l = LENS[op as usize];
        let base: Vec<u8> = (0..l).map(|i| 1 + (i * 7 % 200) as u8).collect();
        let mut r = SliceRegion::<MirrorRegion<u8>>::default();
        let ib = r.push(&base);
        let mut variants = Vec::with_capacity(l);
        for p in 0..l {
            let mut v = base.clone();
            v[p] += 1;
            let i = r.push(&v);
            variants.push((v, i));
        }
        let ib2 = r.push(&base);
        let res = guard(|| -> Result<(), String> {
            let (a, a2) = (r.index(ib), r.index(ib2));
            if !(a == a2) || a.cmp(&a2) != std::cmp::Ordering::Equal || a.partial_cmp(&a2) != Some(std::cmp::Ordering::Equal) {
                return Err(format!("two copies of the same {l}-element slice do not compare equal"));
            }
            for (p, (v, i)) in variants.iter().enumerate() {
                let b = r.index(*i);
                let got = (a == b, b == a, a.partial_cmp(&b), b.partial_cmp(&a), a.cmp(&b), b.cmp(&a));
                let want = (base == *v, *v == base, base.partial_cmp(v), v.partial_cmp(&base), base.cmp(v), v.cmp(&base));
                if got != want {
                    return Err(format!(
                        "{l}-element slices differing only at position {p}: (a == b, b == a, partial_cmp both ways, cmp both ways) = {got:?}, the owned vectors give {want:?}"
                    ));
                }
            }
            Ok(())
        });
        match res {
            Ok(Ok(())) => {
                self.tags.push(format!("len{l}"));
                Step::Ok
            }
            Ok(Err(e)) => Step::Violation(e),
            Err(p) => Step::Violation(format!("comparison panicked: {p}")),
        }
    }
    fn fingerprint(&self) -> Option<String> {
        None
    }
    fn drain_tags(&mut self) -> Vec<String> {
        std::mem::take(&mut self.tags)
    }
}
