//! C06: Huffman container machine. Per frequency profile: build a source container through the
//! public API, merge_regions, then explore item pushes / merge-from-self / clear.

use crate::engine::{guard, Machine, OpId, Step};
use crate::spec::Val;
use flatcontainer::impls::huffman_container::HuffmanContainer;
use flatcontainer::{IntoOwned, Push, Region};
use std::collections::BTreeMap;

pub trait Sym: Val + Ord + Copy {
    fn from_u32(x: u32) -> Self;
    const TY: &'static str;
}
impl Sym for u8 {
    fn from_u32(x: u32) -> u8 {
        x as u8
    }
    const TY: &'static str = "u8";
}
impl Sym for u16 {
    fn from_u32(x: u32) -> u16 {
        x as u16
    }
    const TY: &'static str = "u16";
}
impl Sym for u32 {
    fn from_u32(x: u32) -> u32 {
        x
    }
    const TY: &'static str = "u32";
}

#[derive(Clone, Debug)]
pub struct Profile {
    pub name: String,
    /// (symbol, count)
    pub counts: Vec<(u32, u64)>,
}

/// Statistics whose total exceeds u32::MAX: the first symbol's region is handed to merge_regions 65536
/// times (the iterator of source regions may repeat a region), the other symbols come from a second one.
pub fn huge_total_profile() -> Profile {
    Profile { name: "huge-total".into(), counts: vec![(10, 1u64 << 32), (20, 1), (30, 1), (40, 1), (50, 3)] }
}

pub fn fib_profile(k: usize) -> Profile {
    let mut c = Vec::new();
    let (mut a, mut b) = (1u64, 1u64);
    for i in 0..k {
        c.push((10 * (i as u32 + 1), a));
        let t = a + b;
        a = b;
        b = t;
    }
    Profile { name: format!("fib{k}"), counts: c }
}

pub fn uniform_profile(n: usize, count: u64) -> Profile {
    Profile { name: format!("uniform{n}x{count}"), counts: (0..n).map(|i| (i as u32 * 7 + 1, count)).collect() }
}

pub fn mixed_profile(n: usize) -> Profile {
    Profile { name: format!("mixed{n}"), counts: (0..n).map(|i| (i as u32 * 3 + 2, 1 + (i as u64 % 7) * (i as u64 % 3))).collect() }
}

pub fn small_profiles(max_n: usize) -> Vec<Profile> {
    let mut out = Vec::new();
    for n in 1..=max_n {
        let total = 3usize.pow(n as u32);
        for code in 0..total {
            let mut c = code;
            let mut counts = Vec::new();
            for i in 0..n {
                counts.push((10 * (i as u32 + 1), 1 + (c % 3) as u64));
                c /= 3;
            }
            let name = format!("counts{:?}", counts.iter().map(|x| x.1).collect::<Vec<_>>());
            out.push(Profile { name, counts });
        }
    }
    out
}

/// Minimum total bits of a prefix code with at least one bit per symbol.
pub fn optimal_bits(counts: &[u64]) -> u128 {
    use std::cmp::Reverse;
    use std::collections::BinaryHeap;
    match counts.len() {
        0 => 0,
        1 => counts[0] as u128,
        _ => {
            let mut h: BinaryHeap<Reverse<u128>> = counts.iter().map(|c| Reverse(*c as u128)).collect();
            let mut total = 0u128;
            while h.len() > 1 {
                let a = h.pop().unwrap().0;
                let b = h.pop().unwrap().0;
                total += a + b;
                h.push(Reverse(a + b));
            }
            total
        }
    }
}

pub(crate) struct Gen<B: Sym> {
    c: HuffmanContainer<B>,
    coded: bool,
    /// statistics the current code was built from
    code_counts: BTreeMap<B, u64>,
    /// measured code lengths (bits) of the current code
    lens: BTreeMap<B, usize>,
    issued: Vec<((usize, usize), Vec<B>)>,
    /// symbols pushed into the current container (its statistics for the next generation)
    pushed: BTreeMap<B, u64>,
    generation: usize,
}

pub struct HuffMachine<B: Sym> {
    profile: Profile,
    max_merges: usize,
    g: Gen<B>,
    merges: usize,
    cloned: bool,
    setup_error: Option<String>,
    items: Vec<Vec<B>>,
    tags: Vec<String>,
    /// start from a raw (generation 0) container: the coded container built from the profile is cleared first,
    /// the item alphabet stays the profile's
    raw_start: bool,
}

const OP_MERGE: u32 = 5000;
const OP_CLEAR: u32 = 5001;
const OP_CLONE_FROM: u32 = 5005; // clone_from into a coded container built from other statistics
const OP_CLONE: u32 = 5006; // replace the container by its clone()
const OP_MERGE2: u32 = 5004; // merge_regions([self, a raw region holding each profile symbol once])
const OP_UNKNOWN: u32 = 5002; // push an item with an out-of-statistics symbol
const OP_UNKNOWN2: u32 = 5003; // known symbol followed by an unknown one
const WRAPPED_RAW: u32 = 1000; // + item: push as Wrapped taken from a raw container
const WRAPPED_CODED: u32 = 2000; // + item: push as Wrapped taken from a coded container (other offset)
const WRAPPED_OWNED: u32 = 3000; // + item: push as Wrapped borrowed from an owned Vec

impl<B: Sym> HuffMachine<B> {
    pub fn new(profile: Profile, max_merges: usize) -> Self {
        HuffMachine {
            profile,
            max_merges,
            g: Self::empty_gen(),
            merges: 0,
            cloned: false,
            setup_error: None,
            items: vec![],
            tags: vec![],
            raw_start: false,
        }
    }

    pub fn new_raw(profile: Profile, max_merges: usize) -> Self {
        let mut m = Self::new(profile, max_merges);
        m.raw_start = true;
        m
    }

    fn empty_gen() -> Gen<B> {
        Gen {
            c: HuffmanContainer::default(),
            coded: false,
            code_counts: BTreeMap::new(),
            lens: BTreeMap::new(),
            issued: vec![],
            pushed: BTreeMap::new(),
            generation: 0,
        }
    }

    pub fn source_from(counts: &BTreeMap<B, u64>) -> HuffmanContainer<B> {
        let mut src = HuffmanContainer::<B>::default();
        for (s, n) in counts {
            let mut left = *n;
            while left > 0 {
                let k = left.min(4096) as usize;
                let _ = src.push(vec![*s; k]);
                left -= k as u64;
            }
        }
        src
    }

    /// Builds a coded container for `counts`, measures the code lengths through the API and
    /// checks them against the reference optimum.
    pub(crate) fn build(counts: BTreeMap<B, u64>, generation: usize) -> Result<Gen<B>, String> {
        // the statistics are spread over two source regions with overlapping alphabets: the code must
        // be built from the *summed* counts
        let (mut ca, mut cb) = (BTreeMap::new(), BTreeMap::new());
        // counts of 2^32 and more are reached by handing the same source region to merge_regions many times
        let mut reps = 1usize;
        for (s, n) in &counts {
            if *n >= 1 << 32 {
                reps = 1 << 16;
                ca.insert(*s, n >> 16);
            } else if reps > 1 {
                cb.insert(*s, *n);
            } else {
                ca.insert(*s, n - n / 2);
                if n / 2 > 0 {
                    cb.insert(*s, n / 2);
                }
            }
        }
        let (src_a, src_b) = (Self::source_from(&ca), Self::source_from(&cb));
        let sources = || std::iter::repeat(&src_a).take(reps).chain(std::iter::once(&src_b));
        let c = guard(|| HuffmanContainer::merge_regions(sources())).map_err(|p| {
            format!("merge_regions panicked for statistics {}: {p}", show_counts(&counts))
        })?;
        // measure lengths on a scratch twin
        let mut scratch = guard(|| HuffmanContainer::merge_regions(sources())).map_err(|p| format!("merge_regions panicked: {p}"))?;
        let mut lens = BTreeMap::new();
        let mut pos = 0usize;
        for s in counts.keys() {
            let sc = &mut scratch;
            let (lo, hi) = guard(|| sc.push(vec![*s])).map_err(|p| {
                format!("pushing the single in-statistics symbol {:?} panicked (statistics {}): {p}", s, show_counts(&counts))
            })?;
            if lo < pos || hi < lo {
                return Err(format!("one-symbol item {:?} got bit range ({lo}, {hi}) after {pos} bits", s));
            }
            lens.insert(*s, hi - lo);
            pos = hi;
        }
        // at least one bit per symbol
        for (s, l) in &lens {
            if *l == 0 {
                return Err(format!("symbol {:?} has a zero-bit code (statistics {})", s, show_counts(&counts)));
            }
            if *l > 64 {
                return Err(format!("symbol {:?} has a {l}-bit code", s));
            }
        }
        // Kraft equality for complete prefix codes
        if lens.len() >= 2 {
            let kraft: u128 = lens.values().map(|l| 1u128 << (64 - l)).sum();
            if kraft != 1u128 << 64 {
                return Err(format!("code lengths {:?} do not satisfy Kraft equality", lens.values().collect::<Vec<_>>()));
            }
        }
        let total: u128 = counts.iter().map(|(s, n)| *n as u128 * lens[s] as u128).sum();
        let opt = optimal_bits(&counts.values().cloned().collect::<Vec<_>>());
        if total != opt {
            return Err(format!(
                "code is not optimal: {total} bits for the statistics {} with lengths {:?}; optimum {opt}",
                show_counts(&counts),
                lens
            ));
        }
        Ok(Gen { c, coded: true, code_counts: counts, lens, issued: vec![], pushed: BTreeMap::new(), generation })
    }

    /// item alphabet: all sequences of length 0..2 over <= 4 representative symbols, plus a few
    /// longer ones that span whole bytes
    fn make_items(&mut self) {
        let mut by_len: Vec<(usize, B)> = self.g.lens.iter().map(|(s, l)| (*l, *s)).collect();
        by_len.sort();
        let mut reps: Vec<B> = Vec::new();
        if !by_len.is_empty() {
            let n = by_len.len();
            for i in [0, 1.min(n - 1), n / 2, n - 1] {
                if !reps.contains(&by_len[i].1) {
                    reps.push(by_len[i].1);
                }
            }
        }
        let mut items: Vec<Vec<B>> = vec![vec![]];
        for a in &reps {
            items.push(vec![*a]);
        }
        for a in &reps {
            for b in &reps {
                items.push(vec![*a, *b]);
            }
        }
        if let Some(first) = reps.first() {
            // alignment items: with a one-bit shortest code these reach every start offset 0..7
            for k in 3..=8 {
                items.push(vec![*first; k]);
            }
            items.push(vec![*first; 17]);
        }
        if let Some(last) = reps.last() {
            items.push(vec![*last; 3]);
            // the rarest symbol has the all-ones code: at least a whole byte of ones
            items.push(vec![*last; 9]);
            // a one bit, k zero bits, then the deepest code: the deepest code at every bit offset with a
            // set bit in the pending partial byte
            if reps.len() > 2 {
                for k in 0..=7 {
                    let mut v = vec![reps[1]];
                    v.extend(std::iter::repeat(reps[0]).take(k));
                    v.push(*last);
                    items.push(v);
                }
            }
            if reps.len() > 1 {
                let mut v = vec![reps[0], *last, reps[0], *last, reps[0]];
                v.push(reps[1]);
                items.push(v);
            }
        }
        self.items = items;
    }

    fn unknown_symbol(&self) -> B {
        // a symbol that is neither in the current code nor in the profile
        let mut x = 0x7fff_fff1u32;
        loop {
            let s = B::from_u32(x);
            if !self.g.code_counts.contains_key(&s) {
                return s;
            }
            x = x.wrapping_sub(1);
        }
    }

    fn check_all(&self, what: &str) -> Result<(), String> {
        let mut pos = 0usize;
        for (k, (idx, item)) in self.g.issued.iter().enumerate() {
            // items must not overlap (they need not be contiguous: the property only fixes hi - lo)
            if idx.0 < pos {
                return Err(format!("after {what}: item #{k} starts at bit {} inside the previous item, which ends at {pos}", idx.0));
            }
            pos = idx.1;
            let expect_bits: usize = if self.g.coded { item.iter().map(|s| self.g.lens[s]).sum() } else { item.len() };
            if idx.1 - idx.0 != expect_bits {
                return Err(format!(
                    "after {what}: item #{k} {} occupies ({}, {}) = {} units, the sum of its code lengths is {expect_bits}",
                    crate::spec::show(item),
                    idx.0,
                    idx.1,
                    idx.1 - idx.0
                ));
            }
            let c = &self.g.c;
            let got = guard(|| {
                let w = c.index(*idx);
                let mut got: Vec<B> = Vec::new();
                match w.decode() {
                    Ok(it) => got.extend(it.take(item.len() + 1).cloned()),
                    Err(s) => got.extend(s.iter().take(item.len() + 1).cloned()),
                }
                got
            });
            match got {
                Ok(got) if &got == item => {}
                Ok(got) => {
                    return Err(format!(
                        "after {what}: item #{k} at bits ({}, {}) pushed {}, decodes to {}",
                        idx.0,
                        idx.1,
                        crate::spec::show(item),
                        crate::spec::show(&got)
                    ))
                }
                Err(p) => {
                    return Err(format!(
                        "after {what}: decoding item #{k} {} at bits ({}, {}) panicked: {p}",
                        crate::spec::show(item),
                        idx.0,
                        idx.1
                    ))
                }
            }
            // into_owned only after the bounded walk agreed
            let o = guard(|| c.index(*idx).into_owned()).map_err(|p| format!("after {what}: into_owned of item #{k} panicked: {p}"))?;
            if &o != item {
                return Err(format!("after {what}: into_owned of item #{k} gives {}", crate::spec::show(&o)));
            }
            // IntoOwned laws on (possibly encoded) items: clone_onto over a shorter and a longer target
            for t0 in [vec![], vec![item.first().copied().unwrap_or(B::from_u32(1)); item.len() + 2]] {
                let mut t = t0.clone();
                guard(|| c.index(*idx).clone_onto(&mut t)).map_err(|p| format!("after {what}: clone_onto of item #{k} panicked: {p}"))?;
                if &t != item {
                    return Err(format!(
                        "after {what}: clone_onto(item #{k} = {}, target of {} symbols) leaves {}",
                        crate::spec::show(item),
                        t0.len(),
                        crate::spec::show(&t)
                    ));
                }
            }
        }
        Ok(())
    }

    fn do_push(&mut self, item: Vec<B>, form: u32) -> Step {
        let known = !self.g.coded || item.iter().all(|s| self.g.code_counts.contains_key(s));
        let c = &mut self.g.c;
        let it = item.clone();
        let code_counts = self.g.code_counts.clone();
        let res = guard(move || match form {
            0 => c.push(it.as_slice()),
            WRAPPED_RAW => {
                let mut donor = HuffmanContainer::<B>::default();
                let _ = donor.push(vec![it.first().copied().unwrap_or(B::from_u32(1))]);
                let i = donor.push(it.as_slice());
                c.push(donor.index(i))
            }
            WRAPPED_CODED => {
                // a donor coded with the same statistics, the item sitting at another bit offset
                let mut counts = code_counts.clone();
                for s in &it {
                    *counts.entry(*s).or_insert(0) += 1;
                }
                // the donor needs the same alphabet, not the same (possibly huge) counts
                for c in counts.values_mut() {
                    *c = (*c).min(64);
                }
                let src = Self::source_from(&counts);
                let mut donor = HuffmanContainer::merge_regions(std::iter::once(&src));
                if let Some(f) = it.first() {
                    let _ = donor.push(vec![*f]);
                }
                let i = donor.push(it.as_slice());
                c.push(donor.index(i))
            }
            _ => c.push(<<HuffmanContainer<B> as Region>::ReadItem<'_> as IntoOwned>::borrow_as(&it)),
        });
        match res {
            Ok(idx) => {
                if !known {
                    return Step::Violation(format!(
                        "push({}) contains a symbol outside the statistics {} but was accepted with bit range ({}, {})",
                        crate::spec::show(&item),
                        show_counts(&self.g.code_counts),
                        idx.0,
                        idx.1
                    ));
                }
                if self.g.coded {
                    let whole = (idx.1 / 8).saturating_sub((idx.0 + 7) / 8);
                    self.tags.push(format!("bits:start{}:end{}:whole{}", idx.0 % 8, idx.1 % 8, whole.min(2)));
                    let maxlen = item.iter().map(|s| self.g.lens[s]).max().unwrap_or(0);
                    self.tags.push(format!("codelen:{}", if maxlen > 16 { ">16" } else if maxlen > 8 { "9..16" } else if maxlen > 0 { "1..8" } else { "empty" }));
                } else {
                    self.tags.push("raw".into());
                }
                for s in &item {
                    *self.g.pushed.entry(*s).or_insert(0) += 1;
                }
                self.g.issued.push((idx, item));
                Step::Ok
            }
            Err(p) => {
                if known {
                    Step::Violation(format!(
                        "push({}) panicked although every symbol occurs in the statistics {}: {p}",
                        crate::spec::show(&item),
                        show_counts(&self.g.code_counts)
                    ))
                } else {
                    self.tags.push("refused:unknown-symbol".into());
                    Step::Refused(p)
                }
            }
        }
    }
}

fn clip(s: &str) -> String {
    if s.chars().count() > 300 {
        let h: String = s.chars().take(300).collect();
        format!("{h}…")
    } else {
        s.to_string()
    }
}

fn show_counts<B: Sym>(c: &BTreeMap<B, u64>) -> String {
    if c.len() > 8 {
        let head: Vec<String> = c.iter().take(5).map(|(s, n)| format!("{s:?}:{n}")).collect();
        format!("{{{}, … {} symbols}}", head.join(", "), c.len())
    } else {
        format!("{:?}", c)
    }
}

impl<B: Sym> Machine for HuffMachine<B> {
    fn name(&self) -> String {
        format!("huffman/{}/{}{}", B::TY, self.profile.name, if self.raw_start { "/raw-start" } else { "" })
    }
    fn reset(&mut self) {
        self.merges = 0;
        self.cloned = false;
        self.tags.clear();
        self.setup_error = None;
        let counts: BTreeMap<B, u64> = self.profile.counts.iter().map(|(s, n)| (B::from_u32(*s), *n)).collect();
        match Self::build(counts, 1) {
            Ok(g) => self.g = g,
            Err(e) => {
                self.setup_error = Some(e);
                self.g = Self::empty_gen();
            }
        }
        self.make_items();
        if self.raw_start && self.setup_error.is_none() {
            self.g.c.clear();
            self.g.coded = false;
            self.g.issued.clear();
            self.g.pushed.clear();
            self.g.code_counts.clear();
        }
    }
    fn enabled(&self) -> Vec<OpId> {
        if self.setup_error.is_some() {
            return vec![];
        }
        let n = self.items.len() as u32;
        let mut v: Vec<OpId> = (0..n).collect();
        // read-item forms for the two-symbol items and the long ones
        for i in 0..n {
            if self.items[i as usize].len() >= 2 {
                v.push(WRAPPED_RAW + i);
                v.push(WRAPPED_CODED + i);
                v.push(WRAPPED_OWNED + i);
            }
        }
        v.push(OP_UNKNOWN);
        v.push(OP_UNKNOWN2);
        v.push(OP_CLEAR);
        if self.merges < self.max_merges {
            v.push(OP_MERGE);
            v.push(OP_MERGE2);
        }
        if !self.cloned {
            v.push(OP_CLONE_FROM);
            v.push(OP_CLONE);
        }
        v
    }
    fn describe(&self, op: OpId) -> String {
        match op {
            OP_MERGE => "replace by merge_regions([self]) (next generation)".into(),
            OP_MERGE2 => "replace by merge_regions([self, raw region holding every profile symbol once])".into(),
            OP_CLONE => "replace by clone()".into(),
            OP_CLONE_FROM => "dst := coded container built from reversed statistics, holding items; dst.clone_from(self); continue with dst".into(),
            OP_CLEAR => "clear()".into(),
            OP_UNKNOWN => format!("push([{:?}]) (symbol outside the statistics)", self.unknown_symbol()),
            OP_UNKNOWN2 => "push([known, unknown])".into(),
            o => {
                let (form, i) = (o / 1000 * 1000, o % 1000);
                let f = match form {
                    0 => "&[B]",
                    WRAPPED_RAW => "Wrapped from a raw container",
                    WRAPPED_CODED => "Wrapped from a coded container",
                    _ => "Wrapped borrowed from an owned Vec",
                };
                format!("push({}) as {f}", crate::spec::show(&self.items[i as usize]))
            }
        }
    }
    fn step(&mut self, op: OpId) -> Step {
        let what = self.describe(op);
        let r = match op {
            OP_MERGE | OP_MERGE2 => {
                let mut counts = self.g.pushed.clone();
                self.merges += 1;
                // the real merge from the live container, plus the measured twin for the lengths
                let live = &self.g.c;
                let mut extra = HuffmanContainer::<B>::default();
                if op == OP_MERGE2 {
                    for (s, _) in &self.profile.counts {
                        let b = B::from_u32(*s);
                        let _ = extra.push(vec![b]);
                        *counts.entry(b).or_insert(0) += 1;
                    }
                }
                let merged = guard(|| {
                    if op == OP_MERGE2 {
                        HuffmanContainer::merge_regions([live, &extra].into_iter())
                    } else {
                        HuffmanContainer::merge_regions(std::iter::once(live))
                    }
                });
                match (merged, Self::build(counts, self.g.generation + 1)) {
                    (Ok(m), Ok(mut g)) => {
                        // the live container's statistics must be what was pushed into it: the code table of
                        // the real merge equals the one built from the model's counts
                        if m.verif_fingerprint() != g.c.verif_fingerprint() {
                            return Step::Violation(format!(
                                "merge_regions([self]) built a code table that differs from the one for the symbols pushed into it {}:\n   live:  {}\n   model: {}",
                                show_counts(&g.code_counts),
                                clip(&m.verif_fingerprint()),
                                clip(&g.c.verif_fingerprint())
                            ));
                        }
                        g.c = m;
                        self.g = g;
                        self.make_items();
                        self.tags.push(format!("merge:symbols{}", self.g.code_counts.len().min(5)));
                        Step::Ok
                    }
                    (Err(p), _) => Step::Violation(format!("merge_regions([self]) panicked: {p}")),
                    (_, Err(e)) => Step::Violation(e),
                }
            }
            OP_CLONE => {
                self.cloned = true;
                let live = &self.g.c;
                match guard(|| live.clone()) {
                    Ok(c) => {
                        self.g.c = c;
                        Step::Ok
                    }
                    Err(p) => Step::Violation(format!("clone() panicked: {p}")),
                }
            }
            OP_CLONE_FROM => {
                self.cloned = true;
                // destination: another code for the same alphabet (counts reversed and squared), pre-filled
                let syms: Vec<B> = self.g.code_counts.keys().cloned().collect();
                let n = syms.len();
                let vals: Vec<u64> = self.g.code_counts.values().cloned().collect();
                // (capped: the destination only has to carry a *different* code, not a deep one)
                let other: BTreeMap<B, u64> = syms.iter().enumerate().map(|(i, s)| (*s, vals[n - 1 - i].min(64) * vals[n - 1 - i].min(64) + i as u64)).collect();
                let src = Self::source_from(&other);
                let live = &self.g.c;
                let r = guard(|| {
                    let mut dst = HuffmanContainer::merge_regions(std::iter::once(&src));
                    for s in &syms {
                        let _ = dst.push(vec![*s, *s]);
                    }
                    dst.clone_from(live);
                    dst
                });
                match r {
                    Ok(dst) => {
                        self.g.c = dst;
                        Step::Ok
                    }
                    Err(p) => Step::Violation(format!("clone_from panicked: {p}")),
                }
            }
            OP_CLEAR => {
                let c = &mut self.g.c;
                if let Err(p) = guard(|| c.clear()) {
                    return Step::Violation(format!("clear() panicked: {p}"));
                }
                self.g.coded = false;
                self.g.issued.clear();
                self.g.pushed.clear();
                self.g.code_counts.clear();
                Step::Ok
            }
            OP_UNKNOWN => {
                let u = self.unknown_symbol();
                self.do_push(vec![u], 0)
            }
            OP_UNKNOWN2 => {
                let u = self.unknown_symbol();
                let k = self.items.get(1).and_then(|i| i.first().copied()).unwrap_or(u);
                self.do_push(vec![k, u], 0)
            }
            o => {
                let (form, i) = (o / 1000 * 1000, o % 1000);
                let item = self.items[i as usize].clone();
                self.do_push(item, form)
            }
        };
        match r {
            Step::Ok => {}
            other => return other,
        }
        match self.check_all(&what) {
            Ok(()) => Step::Ok,
            Err(e) => Step::Violation(e),
        }
    }
    fn check_state(&mut self) -> Result<(), String> {
        match &self.setup_error {
            Some(e) => Err(e.clone()),
            None => Ok(()),
        }
    }
    fn fingerprint(&self) -> Option<String> {
        Some(format!(
            "{}|{:?}|{:?}|{}|{}|{}",
            self.g.c.verif_fingerprint(),
            self.g.issued,
            self.g.pushed,
            self.g.generation,
            self.merges,
            self.cloned
        ))
    }
    fn drain_tags(&mut self) -> Vec<String> {
        std::mem::take(&mut self.tags)
    }
}

// ---------------------------------------------------------------------------------------------
// C15: raw vs Huffman-encoded items (same and different codes) compare like the owned values

pub struct HuffCmpMachine<B: Sym> {
    profile: Profile,
    items: Vec<Vec<B>>,
    raw: HuffmanContainer<B>,
    c1: HuffmanContainer<B>,
    c2: HuffmanContainer<B>,
    idx: Vec<[(usize, usize); 3]>,
    done: bool,
    tags: Vec<String>,
}

impl<B: Sym> HuffCmpMachine<B> {
    pub fn new(profile: Profile) -> Self {
        HuffCmpMachine {
            profile,
            items: vec![],
            raw: Default::default(),
            c1: Default::default(),
            c2: Default::default(),
            idx: vec![],
            done: false,
            tags: vec![],
        }
    }
}

impl<B: Sym> Machine for HuffCmpMachine<B> {
    fn name(&self) -> String {
        format!("huffman-cmp/{}/{}", B::TY, self.profile.name)
    }
    fn reset(&mut self) {
        self.done = false;
        let syms: Vec<B> = self.profile.counts.iter().map(|c| B::from_u32(c.0)).take(3).collect();
        let mut items: Vec<Vec<B>> = vec![vec![]];
        let mut frontier: Vec<Vec<B>> = vec![vec![]];
        for _ in 0..3 {
            let mut next = Vec::new();
            for f in &frontier {
                for s in &syms {
                    let mut n = f.clone();
                    n.push(*s);
                    next.push(n);
                }
            }
            items.extend(next.iter().cloned());
            frontier = next;
        }
        // items of about 58..64 bits (one machine word) that differ only in their leading bits, at
        // whatever bit offset they happen to start
        if syms.len() >= 2 {
            for n in [29usize, 30, 31, 32] {
                let mut a = vec![syms[0]; n];
                items.push(a.clone());
                a[0] = syms[1];
                items.push(a.clone());
                let mut b = vec![syms[0]; n];
                b[n - 1] = syms[1];
                items.push(b);
            }
        }
        let counts1: BTreeMap<B, u64> = self.profile.counts.iter().map(|(s, n)| (B::from_u32(*s), *n)).collect();
        // a different code for the same alphabet: counts reversed and squared
        let n = self.profile.counts.len();
        let counts2: BTreeMap<B, u64> = self
            .profile
            .counts
            .iter()
            .enumerate()
            .map(|(i, (s, _))| (B::from_u32(*s), { let c = self.profile.counts[n - 1 - i].1.min(64); c * c + i as u64 }))
            .collect();
        let s1 = HuffMachine::<B>::source_from(&counts1);
        let s2 = HuffMachine::<B>::source_from(&counts2);
        self.raw = Default::default();
        self.c1 = HuffmanContainer::merge_regions(std::iter::once(&s1));
        self.c2 = HuffmanContainer::merge_regions(std::iter::once(&s2));
        self.idx.clear();
        for it in &items {
            self.idx.push([self.raw.push(it.as_slice()), self.c1.push(it.as_slice()), self.c2.push(it.as_slice())]);
        }
        self.items = items;
    }
    fn enabled(&self) -> Vec<OpId> {
        if self.done {
            vec![]
        } else {
            (0..self.items.len() as u32).collect()
        }
    }
    fn describe(&self, op: OpId) -> String {
        format!("compare item {} in 4 representations with every item in 4 representations", crate::spec::show(&self.items[op as usize]))
    }
    fn step(&mut self, op: OpId) -> Step {
        self.done = true;
        let i = op as usize;
        let names = ["raw", "coded", "coded under another code", "borrowed from owned"];
        type W<'a, B> = <HuffmanContainer<B> as Region>::ReadItem<'a>;
        let get = |k: usize, rep: usize| -> W<'_, B> {
            match rep {
                0 => self.raw.index(self.idx[k][0]),
                1 => self.c1.index(self.idx[k][1]),
                2 => self.c2.index(self.idx[k][2]),
                _ => <W<'_, B> as IntoOwned>::borrow_as(&self.items[k]),
            }
        };
        let mut pairs = 0u64;
        for j in 0..self.items.len() {
            let want = self.items[i].cmp(&self.items[j]);
            for ra in 0..4 {
                for rb in 0..4 {
                    let (x, y) = (get(i, ra), get(j, rb));
                    let got = match guard(|| (x == y, x.partial_cmp(&y), x.cmp(&y))) {
                        Ok(g) => g,
                        Err(p) => return Step::Violation(format!("comparison panicked: {p}")),
                    };
                    if got != (want == std::cmp::Ordering::Equal, Some(want), want) {
                        return Step::Violation(format!(
                            "x = {} ({}), y = {} ({}): (==, partial_cmp, cmp) = {:?}, the owned values compare {:?}",
                            crate::spec::show(&self.items[i]),
                            names[ra],
                            crate::spec::show(&self.items[j]),
                            names[rb],
                            got,
                            want
                        ));
                    }
                    pairs += 1;
                }
            }
        }
        self.tags.push(format!("pairs:{pairs}"));
        Step::Ok
    }
    fn fingerprint(&self) -> Option<String> {
        None
    }
    fn drain_tags(&mut self) -> Vec<String> {
        std::mem::take(&mut self.tags)
    }
}

// ---------------------------------------------------------------------------------------------
// One-step machine for very large alphabets: build the code once, measure every symbol's code length
// (acceptance, Kraft equality, optimality) and read a few items back.

pub struct HuffBuildMachine<B: Sym> {
    profile: Profile,
    done: bool,
    tags: Vec<String>,
    _b: std::marker::PhantomData<B>,
}

impl<B: Sym> HuffBuildMachine<B> {
    pub fn new(profile: Profile) -> Self {
        HuffBuildMachine { profile, done: false, tags: vec![], _b: std::marker::PhantomData }
    }
}

impl<B: Sym> Machine for HuffBuildMachine<B> {
    fn name(&self) -> String {
        format!("huffman-build/{}/{}", B::TY, self.profile.name)
    }
    fn reset(&mut self) {
        self.done = false;
    }
    fn enabled(&self) -> Vec<OpId> {
        if self.done {
            vec![]
        } else {
            vec![0]
        }
    }
    fn describe(&self, _op: OpId) -> String {
        format!("merge_regions over sources holding the statistics {}; push every symbol once; read back", self.profile.name)
    }
    fn step(&mut self, _op: OpId) -> Step {
        self.done = true;
        let counts: BTreeMap<B, u64> = self.profile.counts.iter().map(|(s, n)| (B::from_u32(*s), *n)).collect();
        let mut g = match HuffMachine::<B>::build(counts.clone(), 1) {
            Ok(g) => g,
            Err(e) => return Step::Violation(e),
        };
        let syms: Vec<B> = counts.keys().cloned().collect();
        let n = syms.len();
        let items: Vec<Vec<B>> = vec![vec![syms[0]], vec![syms[n / 2], syms[n - 1]], vec![syms[n - 1], syms[0], syms[n / 3]], vec![]];
        let mut issued = vec![];
        for it in &items {
            let c = &mut g.c;
            match guard(|| c.push(it.as_slice())) {
                Ok(i) => issued.push(i),
                Err(p) => return Step::Violation(format!("push({}) panicked: {p}", crate::spec::show(it))),
            }
        }
        for (i, it) in issued.iter().zip(&items) {
            let c = &g.c;
            match guard(|| c.index(*i).into_owned()) {
                Ok(o) if &o == it => {}
                Ok(o) => return Step::Violation(format!("pushed {}, reads {}", crate::spec::show(it), crate::spec::show(&o))),
                Err(p) => return Step::Violation(format!("reading {} panicked: {p}", crate::spec::show(it))),
            }
        }
        self.tags.push(format!("built:symbols{}", n));
        Step::Ok
    }
    fn fingerprint(&self) -> Option<String> {
        None
    }
    fn drain_tags(&mut self) -> Vec<String> {
        std::mem::take(&mut self.tags)
    }
}

// ---------------------------------------------------------------------------------------------
// C11 over a Huffman container: `CollapseSequence<HuffmanContainer<u8>>` must collapse an item equal to the
// previous one whatever representation it arrives in (borrowed, read item of a raw container, read item of a
// container coded with the same or with another code table), and must not collapse unequal ones.

use flatcontainer::impls::deduplicate::CollapseSequence;

type CH = CollapseSequence<HuffmanContainer<u8>>;

pub struct HuffCollapseMachine {
    dst: CH,
    coded: bool,
    covered: std::collections::BTreeSet<u8>,
    /// symbols stored (not collapsed) since creation / clear: the statistics a merge would see
    stored_syms: std::collections::BTreeSet<u8>,
    last: Option<(Vec<u8>, (usize, usize))>,
    issued: Vec<((usize, usize), Vec<u8>)>,
    merges: usize,
    tags: Vec<String>,
}

const HC_ITEMS: [&[u8]; 6] = [&[], &[1], &[3], &[1, 1, 2], &[3, 3, 2], &[1, 2, 3]];
const HC_FORMS: [&str; 4] = [
    "borrowed from an owned Vec",
    "read item of a raw container",
    "read item of a container coded with another table (symbol 1 frequent)",
    "read item of a container coded with the destination's kind of table (symbol 3 frequent)",
];
const HC_CLEAR: u32 = 100;
const HC_MERGE: u32 = 101;

fn hc_coded(frequent: u8) -> HuffmanContainer<u8> {
    let mut stats = HuffmanContainer::<u8>::default();
    for _ in 0..8 {
        let _ = stats.push([frequent, frequent, frequent]);
    }
    let _ = stats.push([1u8, 2, 3]);
    HuffmanContainer::merge_regions(std::iter::once(&stats))
}

impl HuffCollapseMachine {
    pub fn new() -> Self {
        HuffCollapseMachine {
            dst: Default::default(),
            coded: false,
            covered: Default::default(),
            stored_syms: Default::default(),
            last: None,
            issued: vec![],
            merges: 0,
            tags: vec![],
        }
    }
}

impl Machine for HuffCollapseMachine {
    fn name(&self) -> String {
        "collapse/CollapseSequence<HuffmanContainer<u8>>".into()
    }
    fn reset(&mut self) {
        // a coded destination: merged from a collapsing region whose stored items make symbol 3 frequent
        let mut stats = CH::default();
        let (a, b) = (vec![3u8; 3], vec![3u8; 4]);
        for _ in 0..4 {
            let _ = stats.push(<<HuffmanContainer<u8> as Region>::ReadItem<'_> as IntoOwned>::borrow_as(&a));
            let _ = stats.push(<<HuffmanContainer<u8> as Region>::ReadItem<'_> as IntoOwned>::borrow_as(&b));
        }
        let c = vec![1u8, 2, 3];
        let _ = stats.push(<<HuffmanContainer<u8> as Region>::ReadItem<'_> as IntoOwned>::borrow_as(&c));
        self.dst = CH::merge_regions(std::iter::once(&stats));
        self.coded = true;
        self.covered = [1u8, 2, 3].into_iter().collect();
        self.stored_syms.clear();
        self.last = None;
        self.issued.clear();
        self.merges = 0;
        self.tags.clear();
    }
    fn enabled(&self) -> Vec<OpId> {
        let mut v: Vec<OpId> = (0..(HC_ITEMS.len() * HC_FORMS.len()) as u32).collect();
        v.push(HC_CLEAR);
        if self.merges < 1 {
            v.push(HC_MERGE);
        }
        v
    }
    fn describe(&self, op: OpId) -> String {
        match op {
            HC_CLEAR => "clear()".into(),
            HC_MERGE => "replace by merge_regions([self])".into(),
            o => format!("push({:?}) as {}", HC_ITEMS[o as usize / HC_FORMS.len()], HC_FORMS[o as usize % HC_FORMS.len()]),
        }
    }
    fn step(&mut self, op: OpId) -> Step {
        let what = self.describe(op);
        match op {
            HC_CLEAR => {
                self.dst.clear();
                self.coded = false;
                self.covered.clear();
                self.stored_syms.clear();
                self.last = None;
                self.issued.clear();
            }
            HC_MERGE => {
                self.merges += 1;
                let d = &self.dst;
                match guard(|| CH::merge_regions(std::iter::once(d))) {
                    Ok(m) => self.dst = m,
                    Err(p) => return Step::Violation(format!("merge_regions panicked: {p}")),
                }
                self.coded = true;
                self.covered = std::mem::take(&mut self.stored_syms);
                self.last = None;
                self.issued.clear();
            }
            o => {
                let item: Vec<u8> = HC_ITEMS[o as usize / HC_FORMS.len()].to_vec();
                let form = o as usize % HC_FORMS.len();
                let known = !self.coded || item.iter().all(|s| self.covered.contains(s));
                let dst = &mut self.dst;
                let it = item.clone();
                let res = guard(move || match form {
                    0 => dst.push(<<HuffmanContainer<u8> as Region>::ReadItem<'_> as IntoOwned>::borrow_as(&it)),
                    1 => {
                        let mut donor = HuffmanContainer::<u8>::default();
                        let _ = donor.push(vec![2u8]);
                        let i = donor.push(it.as_slice());
                        dst.push(donor.index(i))
                    }
                    f => {
                        let mut donor = hc_coded(if f == 2 { 1 } else { 3 });
                        let _ = donor.push(vec![2u8]);
                        let i = donor.push(it.as_slice());
                        dst.push(donor.index(i))
                    }
                });
                let idx = match res {
                    Ok(i) => i,
                    Err(p) if !known => return Step::Refused(p),
                    Err(p) => return Step::Violation(format!("{what} panicked although every symbol is covered by the statistics: {p}")),
                };
                match &self.last {
                    Some((prev, pidx)) if *prev == item => {
                        if idx != *pidx {
                            return Step::Violation(format!(
                                "{what}: equal to the previous item {:?} at {pidx:?}, but it was stored again at {idx:?} instead of collapsing",
                                prev
                            ));
                        }
                        self.tags.push(format!("collapsed:form{form}:{}", if self.coded { "coded" } else { "raw" }));
                    }
                    Some((prev, pidx)) => {
                        if idx == *pidx {
                            return Step::Violation(format!("{what}: differs from the previous item {:?} but returned its index {pidx:?}", prev));
                        }
                        self.stored_syms.extend(item.iter().cloned());
                        self.tags.push(format!("stored:form{form}"));
                    }
                    None => {
                        self.stored_syms.extend(item.iter().cloned());
                    }
                }
                self.last = Some((item.clone(), idx));
                self.issued.push((idx, item));
            }
        }
        for (k, (idx, item)) in self.issued.iter().enumerate() {
            let d = &self.dst;
            match guard(|| d.index(*idx).into_owned()) {
                Ok(o) if &o == item => {}
                Ok(o) => return Step::Violation(format!("after {what}: item #{k} pushed {:?} reads {:?}", item, o)),
                Err(p) => return Step::Violation(format!("after {what}: reading item #{k} panicked: {p}")),
            }
        }
        Step::Ok
    }
    fn fingerprint(&self) -> Option<String> {
        None
    }
    fn drain_tags(&mut self) -> Vec<String> {
        std::mem::take(&mut self.tags)
    }
}
