//! Typed catalogue support: value equality, `Spec` (one per region composition), entries with
//! input forms and capabilities.

use flatcontainer::impls::columns::ReadColumns;
use flatcontainer::impls::deduplicate::{CollapseSequence, ConsecutiveIndexPairs};
use flatcontainer::impls::slice::ReadSlice;
use flatcontainer::impls::tuple::{TupleABCRegion, TupleABRegion};
use flatcontainer::{
    ColumnsRegion, IntoOwned, MirrorRegion, OptionRegion, OwnedRegion, Push, Region, ResultRegion, SliceRegion,
    StringRegion,
};
use std::fmt::Debug;
use std::marker::PhantomData;

// ---------------------------------------------------------------------------------------------
// value equality by representation (NaN payloads and -0.0 are distinguished)

pub trait Same {
    fn same(&self, other: &Self) -> bool;
}

macro_rules! same_eq {
    ($($t:ty),*) => {$(
        impl Same for $t { fn same(&self, o: &Self) -> bool { self == o } }
    )*};
}
same_eq!((), bool, char, u8, u16, u32, u64, u128, usize, i8, i16, i32, i64, i128, isize, String, std::time::Duration);
same_eq!(std::num::Wrapping<i8>, std::num::Wrapping<i64>, std::num::Wrapping<i128>);

impl Same for f64 {
    fn same(&self, o: &Self) -> bool {
        self.to_bits() == o.to_bits()
    }
}
impl Same for f32 {
    fn same(&self, o: &Self) -> bool {
        self.to_bits() == o.to_bits()
    }
}
impl<T: Same> Same for Vec<T> {
    fn same(&self, o: &Self) -> bool {
        self.len() == o.len() && (std::mem::size_of::<T>() == 0 || self.iter().zip(o).all(|(a, b)| a.same(b)))
    }
}
impl<T: Same> Same for Option<T> {
    fn same(&self, o: &Self) -> bool {
        match (self, o) {
            (Some(a), Some(b)) => a.same(b),
            (None, None) => true,
            _ => false,
        }
    }
}
impl<A: Same, B: Same> Same for Result<A, B> {
    fn same(&self, o: &Self) -> bool {
        match (self, o) {
            (Ok(a), Ok(b)) => a.same(b),
            (Err(a), Err(b)) => a.same(b),
            _ => false,
        }
    }
}
impl<A: Same> Same for (A,) {
    fn same(&self, o: &Self) -> bool {
        self.0.same(&o.0)
    }
}
impl<A: Same, B: Same> Same for (A, B) {
    fn same(&self, o: &Self) -> bool {
        self.0.same(&o.0) && self.1.same(&o.1)
    }
}
impl<A: Same, B: Same, C: Same> Same for (A, B, C) {
    fn same(&self, o: &Self) -> bool {
        self.0.same(&o.0) && self.1.same(&o.1) && self.2.same(&o.2)
    }
}

pub trait Val: Clone + Debug + Same + Send + Sync + 'static {}
impl<T: Clone + Debug + Same + Send + Sync + 'static> Val for T {}

/// Bounded rendering of a value for messages and replay files.
pub fn show<V: Debug>(v: &V) -> String {
    let s = format!("{:?}", v);
    if s.chars().count() > 90 {
        let head: String = s.chars().take(60).collect();
        format!("{head}…({} chars)", s.chars().count())
    } else {
        s
    }
}

/// ZST-aware rendering (never prints 2^32 units).
pub fn show_vec_len<T>(v: &Vec<T>) -> Option<String> {
    if std::mem::size_of::<T>() == 0 && v.len() > 16 {
        Some(format!("[(); {}]", v.len()))
    } else {
        None
    }
}

// ---------------------------------------------------------------------------------------------

pub type Idx<S> = <<S as Spec>::R as Region>::Index;
pub type RI<'a, S> = <<S as Spec>::R as Region>::ReadItem<'a>;

pub fn idx_str<I: flatcontainer::Index>(i: &I) -> String {
    serde_json::to_string(i).unwrap_or_else(|_| "<unserialisable index>".into())
}

/// One region composition.
pub trait Spec: Sized + Send + Sync + 'static {
    type V: Val;
    type R: Region<Owned = Self::V> + 'static;
    fn name() -> String;
    /// Canonical push (owned form where the region has one).
    fn canon_push(r: &mut Self::R, v: &Self::V) -> Idx<Self>;
    /// Exercises *every* accessor of the read item against the model value.
    fn check<'a>(item: RI<'a, Self>, v: &Self::V) -> Result<(), String>;
    /// Positional accessors incl. out-of-bounds positions (C13). Returns number of probes.
    fn probe_positions<'a>(_item: RI<'a, Self>, _v: &Self::V, _extra: usize) -> Result<u64, String> {
        Ok(0)
    }
    /// Rendering of a value for histories (ZST aware).
    fn show(v: &Self::V) -> String {
        show(v)
    }

    // ---- reference storage model (C11, C12, C18): predicts indices of pair/dense-indexed regions
    // and the exact used bytes of every storage heap_size reports, in callback order.
    type M: Default + Clone + Send + Sync + 'static;
    const MODELLED: bool = true;
    fn m_push(m: &mut Self::M, v: &Self::V) -> MIdx;
    fn m_clear(m: &mut Self::M);
    fn m_merged(srcs: &[&Self::M]) -> Self::M;
    fn m_layout(m: &Self::M, out: &mut Vec<Slot>);
}

#[derive(Clone, Copy, Debug, PartialEq, Eq)]
pub enum Kind {
    /// bytes of stored strings / owned elements
    Payload,
    /// one index entry per slice element / row cell, kept in a plain vector
    Entries,
    /// offset containers and compressible index containers (cost given by the documented rule, may be 0)
    Offsets,
    /// the column vector
    Structure,
}
#[derive(Clone, Debug, PartialEq, Eq)]
pub struct Slot {
    pub kind: Kind,
    pub used: usize,
}
/// Model of a region index.
#[derive(Clone, Copy, Debug, PartialEq, Eq)]
pub enum MIdx {
    Pair(usize, usize),
    Dense(usize),
    Opaque,
}
impl MIdx {
    pub fn render(&self) -> Option<String> {
        match self {
            MIdx::Pair(a, b) => Some(format!("[{a},{b}]")),
            MIdx::Dense(k) => Some(k.to_string()),
            MIdx::Opaque => None,
        }
    }
}

/// Expected heap_size callbacks of an index container holding region indices.
pub trait IdxModel<T> {
    fn slots(vals: &[MIdx], out: &mut Vec<Slot>);
}
impl<T> IdxModel<T> for Vec<T> {
    fn slots(vals: &[MIdx], out: &mut Vec<Slot>) {
        out.push(Slot { kind: Kind::Entries, used: vals.len() * std::mem::size_of::<T>() });
    }
}
fn dense_values(vals: &[MIdx]) -> Vec<usize> {
    vals.iter()
        .map(|v| match v {
            MIdx::Dense(k) => *k,
            other => panic!("model: usize index container holds {:?}", other),
        })
        .collect()
}
fn list_slots(seq: &[usize], out: &mut Vec<Slot>) {
    let first_big = seq.iter().position(|&x| x > u32::MAX as usize).unwrap_or(seq.len());
    out.push(Slot { kind: Kind::Offsets, used: 4 * first_big });
    out.push(Slot { kind: Kind::Offsets, used: 8 * (seq.len() - first_big) });
}
impl IdxModel<usize> for flatcontainer::impls::index::IndexList<Vec<u32>, Vec<u64>> {
    fn slots(vals: &[MIdx], out: &mut Vec<Slot>) {
        list_slots(&dense_values(vals), out)
    }
}
impl IdxModel<usize> for flatcontainer::impls::index::IndexOptimized {
    fn slots(vals: &[MIdx], out: &mut Vec<Slot>) {
        let seq = dense_values(vals);
        let p = crate::m_index::stride_prefix_len(&seq);
        list_slots(&seq[p..], out)
    }
}
fn offsets_slots<O: IdxModel<usize>>(offs: &[usize], out: &mut Vec<Slot>) {
    let v: Vec<MIdx> = offs.iter().map(|o| MIdx::Dense(*o)).collect();
    let from = out.len();
    O::slots(&v, out);
    for s in &mut out[from..] {
        s.kind = Kind::Offsets;
    }
}

#[derive(Clone)]
pub struct ConsecM<IM> {
    pub inner: IM,
    pub offs: Vec<usize>,
}
impl<IM: Default> Default for ConsecM<IM> {
    fn default() -> Self {
        ConsecM { inner: IM::default(), offs: vec![0] }
    }
}
#[derive(Clone)]
pub struct ColsM<IM> {
    pub cols: Vec<IM>,
    pub row_offs: Vec<usize>,
    pub cells: usize,
}
impl<IM> Default for ColsM<IM> {
    fn default() -> Self {
        ColsM { cols: vec![], row_offs: vec![0], cells: 0 }
    }
}

macro_rules! ensure {
    ($cond:expr, $($fmt:tt)*) => {
        if !($cond) { return Err(format!($($fmt)*)); }
    };
}

// ----- terminals -----------------------------------------------------------------------------

pub struct Mirror<T>(PhantomData<T>);
impl<T> Spec for Mirror<T>
where
    T: Val + Copy + flatcontainer::Index + for<'a> IntoOwned<'a, Owned = T>,
{
    type V = T;
    type R = MirrorRegion<T>;
    type M = ();
    fn m_push(_m: &mut (), v: &T) -> MIdx {
        // the index of a mirror region is the value itself: for usize values the model knows it, so
        // that usize index containers holding such indices can be costed
        match (v as &dyn std::any::Any).downcast_ref::<usize>() {
            Some(x) => MIdx::Dense(*x),
            None => MIdx::Opaque,
        }
    }
    fn m_clear(_m: &mut ()) {}
    fn m_merged(_s: &[&()]) {}
    fn m_layout(_m: &(), _out: &mut Vec<Slot>) {}
    fn name() -> String {
        format!("MirrorRegion<{}>", short_type::<T>())
    }
    fn canon_push(r: &mut Self::R, v: &T) -> T {
        r.push(*v)
    }
    fn check<'a>(item: T, v: &T) -> Result<(), String> {
        ensure!(item.same(v), "read {:?}, pushed {:?}", item, v);
        let o = item.into_owned();
        ensure!(o.same(v), "into_owned gives {:?}, pushed {:?}", o, v);
        Ok(())
    }
}

pub fn short_type<T>() -> String {
    std::any::type_name::<T>()
        .replace("alloc::string::", "")
        .replace("alloc::vec::", "")
        .replace("core::num::wrapping::", "")
        .replace("core::time::", "")
        .replace("core::option::", "")
        .replace("core::result::", "")
        .replace("flatcontainer::impls::index::", "")
}

fn check_slice<T: Val>(item: &[T], v: &Vec<T>) -> Result<(), String> {
    ensure!(item.len() == v.len(), "len() = {}, pushed {} elements", item.len(), v.len());
    ensure!(item.is_empty() == v.is_empty(), "is_empty() = {} for {} elements", item.is_empty(), v.len());
    if std::mem::size_of::<T>() == 0 && v.len() > 4096 {
        ensure!(item.first().is_some() && item.get(v.len() - 1).is_some(), "first/last element missing");
        ensure!(item.get(v.len()).is_none(), "get(len) yields an element");
        let o = item.to_vec();
        ensure!(o.len() == v.len(), "into_owned has {} elements, pushed {}", o.len(), v.len());
        return Ok(());
    }
    for (i, x) in v.iter().enumerate() {
        match item.get(i) {
            Some(y) => ensure!(y.same(x), "element {i} reads {}, pushed {}", show(y), show(x)),
            None => return Err(format!("element {i} missing")),
        }
    }
    let mut n = 0;
    for y in item.iter() {
        ensure!(n < v.len() && y.same(&v[n]), "iteration yields {} at position {n}", show(y));
        n += 1;
    }
    ensure!(n == v.len(), "iteration yields {n} elements, pushed {}", v.len());
    let o = IntoOwned::into_owned(item);
    ensure!(o.same(v), "into_owned gives {}, pushed {}", show(&o), show(v));
    Ok(())
}

pub struct Owned<T>(PhantomData<T>);
impl<T: Val> Spec for Owned<T> {
    type V = Vec<T>;
    type R = OwnedRegion<T>;
    type M = usize;
    fn m_push(m: &mut usize, v: &Vec<T>) -> MIdx {
        let s = *m;
        *m += v.len();
        MIdx::Pair(s, *m)
    }
    fn m_clear(m: &mut usize) {
        *m = 0;
    }
    fn m_merged(_s: &[&usize]) -> usize {
        0
    }
    fn m_layout(m: &usize, out: &mut Vec<Slot>) {
        out.push(Slot { kind: Kind::Payload, used: *m * std::mem::size_of::<T>() });
    }
    fn name() -> String {
        format!("OwnedRegion<{}>", short_type::<T>())
    }
    fn canon_push(r: &mut Self::R, v: &Vec<T>) -> (usize, usize) {
        r.push(v.clone())
    }
    fn check<'a>(item: &'a [T], v: &Vec<T>) -> Result<(), String> {
        check_slice(item, v)
    }
    fn show(v: &Vec<T>) -> String {
        show_vec_len(v).unwrap_or_else(|| show(v))
    }
}

/// `Vec<T>` used directly as a region of `T`.
pub struct VecRegion<T>(PhantomData<T>);
impl<T: Val> Spec for VecRegion<T> {
    type V = T;
    type R = Vec<T>;
    type M = usize;
    fn m_push(m: &mut usize, _v: &T) -> MIdx {
        *m += 1;
        MIdx::Dense(*m - 1)
    }
    fn m_clear(m: &mut usize) {
        *m = 0;
    }
    fn m_merged(_s: &[&usize]) -> usize {
        0
    }
    fn m_layout(m: &usize, out: &mut Vec<Slot>) {
        out.push(Slot { kind: Kind::Payload, used: *m * std::mem::size_of::<T>() });
    }
    fn name() -> String {
        format!("Vec<{}> as region", short_type::<T>())
    }
    fn canon_push(r: &mut Vec<T>, v: &T) -> usize {
        Push::push(r, v.clone())
    }
    fn check<'a>(item: &'a T, v: &T) -> Result<(), String> {
        ensure!(item.same(v), "read {}, pushed {}", show(item), show(v));
        let o: T = IntoOwned::into_owned(item);
        ensure!(o.same(v), "into_owned gives {}, pushed {}", show(&o), show(v));
        Ok(())
    }
}

fn check_str(item: &str, v: &String) -> Result<(), String> {
    let bytes = item.as_bytes();
    ensure!(std::str::from_utf8(bytes).is_ok(), "returned &str is not valid UTF-8: bytes {:?} (pushed {:?})", bytes, v);
    ensure!(bytes == v.as_bytes(), "read {:?} (bytes {:?}), pushed {:?}", String::from_utf8_lossy(bytes), bytes, v);
    ensure!(item.len() == v.len(), "len() = {}, pushed {} bytes", item.len(), v.len());
    ensure!(item.is_empty() == v.is_empty(), "is_empty() = {}", item.is_empty());
    ensure!(item.chars().eq(v.chars()), "chars() differ");
    let o: String = IntoOwned::into_owned(item);
    ensure!(&o == v, "into_owned gives {:?}, pushed {:?}", o, v);
    Ok(())
}

/// `StringRegion<B::R>` over a byte-slice region spec `B`.
pub struct Str<B>(PhantomData<B>);
impl<B> Spec for Str<B>
where
    B: Spec<V = Vec<u8>>,
    for<'a> B::R: Region<ReadItem<'a> = &'a [u8]> + Push<&'a [u8]>,
{
    type V = String;
    type R = StringRegion<B::R>;
    type M = B::M;
    const MODELLED: bool = B::MODELLED;
    fn m_push(m: &mut B::M, v: &String) -> MIdx {
        B::m_push(m, &v.clone().into_bytes())
    }
    fn m_clear(m: &mut B::M) {
        B::m_clear(m)
    }
    fn m_merged(s: &[&B::M]) -> B::M {
        B::m_merged(s)
    }
    fn m_layout(m: &B::M, out: &mut Vec<Slot>) {
        B::m_layout(m, out)
    }
    fn name() -> String {
        if B::name() == "OwnedRegion<u8>" {
            "StringRegion".into()
        } else {
            format!("StringRegion<{}>", B::name())
        }
    }
    fn canon_push(r: &mut Self::R, v: &String) -> Idx<Self> {
        r.push(v.clone())
    }
    fn check<'a>(item: &'a str, v: &String) -> Result<(), String> {
        check_str(item, v)
    }
}

// ----- wrappers ------------------------------------------------------------------------------

pub struct Consec<I, O>(PhantomData<(I, O)>);
impl<I, O> Spec for Consec<I, O>
where
    I: Spec,
    I::R: Region<Index = (usize, usize)> + Push<I::V>,
    O: flatcontainer::impls::index::IndexContainer<usize> + IdxModel<usize> + Send + Sync + 'static,
{
    type V = I::V;
    type R = ConsecutiveIndexPairs<I::R, O>;
    type M = ConsecM<I::M>;
    const MODELLED: bool = I::MODELLED;
    fn m_push(m: &mut Self::M, v: &I::V) -> MIdx {
        match I::m_push(&mut m.inner, v) {
            MIdx::Pair(_, e) => m.offs.push(e),
            other => panic!("model: ConsecutiveIndexPairs over a region with index {:?}", other),
        }
        MIdx::Dense(m.offs.len() - 2)
    }
    fn m_clear(m: &mut Self::M) {
        I::m_clear(&mut m.inner);
        m.offs = vec![0];
    }
    fn m_merged(s: &[&Self::M]) -> Self::M {
        let inner: Vec<&I::M> = s.iter().map(|x| &x.inner).collect();
        ConsecM { inner: I::m_merged(&inner), offs: vec![0] }
    }
    fn m_layout(m: &Self::M, out: &mut Vec<Slot>) {
        offsets_slots::<O>(&m.offs, out);
        I::m_layout(&m.inner, out);
    }
    fn name() -> String {
        format!("ConsecutiveIndexPairs<{}, {}>", I::name(), short_type::<O>())
    }
    fn canon_push(r: &mut Self::R, v: &I::V) -> usize {
        r.push(v.clone())
    }
    fn check<'a>(item: RI<'a, Self>, v: &I::V) -> Result<(), String> {
        I::check(item, v)
    }
    fn probe_positions<'a>(item: RI<'a, Self>, v: &I::V, extra: usize) -> Result<u64, String> {
        I::probe_positions(item, v, extra)
    }
    fn show(v: &I::V) -> String {
        I::show(v)
    }
}

/// `CollapseSequence<I::R>`; the `Push<V>` capability is demanded explicitly.
pub struct Collapse<I>(PhantomData<I>);
impl<I> Spec for Collapse<I>
where
    I: Spec,
    I::R: Push<I::V>,
    I::V: PartialEq,
    for<'a> I::V: PartialEq<<I::R as Region>::ReadItem<'a>>,
{
    type V = I::V;
    type R = CollapseSequence<I::R>;
    type M = (I::M, Option<(I::V, MIdx)>);
    const MODELLED: bool = I::MODELLED;
    fn m_push(m: &mut Self::M, v: &I::V) -> MIdx {
        if let Some((last, idx)) = &m.1 {
            if last == v {
                return *idx;
            }
        }
        let idx = I::m_push(&mut m.0, v);
        m.1 = Some((v.clone(), idx));
        idx
    }
    fn m_clear(m: &mut Self::M) {
        I::m_clear(&mut m.0);
        m.1 = None;
    }
    fn m_merged(s: &[&Self::M]) -> Self::M {
        let inner: Vec<&I::M> = s.iter().map(|x| &x.0).collect();
        (I::m_merged(&inner), None)
    }
    fn m_layout(m: &Self::M, out: &mut Vec<Slot>) {
        I::m_layout(&m.0, out);
    }
    fn name() -> String {
        format!("CollapseSequence<{}>", I::name())
    }
    fn canon_push(r: &mut Self::R, v: &I::V) -> Idx<Self> {
        r.push(v.clone())
    }
    fn check<'a>(item: RI<'a, Self>, v: &I::V) -> Result<(), String> {
        I::check(item, v)
    }
    fn probe_positions<'a>(item: RI<'a, Self>, v: &I::V, extra: usize) -> Result<u64, String> {
        I::probe_positions(item, v, extra)
    }
    fn show(v: &I::V) -> String {
        I::show(v)
    }
}

pub struct Opt<I>(PhantomData<I>);
impl<I> Spec for Opt<I>
where
    I: Spec,
    I::R: Push<I::V>,
{
    type V = Option<I::V>;
    type R = OptionRegion<I::R>;
    type M = I::M;
    const MODELLED: bool = I::MODELLED;
    fn m_push(m: &mut I::M, v: &Self::V) -> MIdx {
        if let Some(x) = v {
            I::m_push(m, x);
        }
        MIdx::Opaque
    }
    fn m_clear(m: &mut I::M) {
        I::m_clear(m)
    }
    fn m_merged(s: &[&I::M]) -> I::M {
        I::m_merged(s)
    }
    fn m_layout(m: &I::M, out: &mut Vec<Slot>) {
        I::m_layout(m, out)
    }
    fn name() -> String {
        format!("OptionRegion<{}>", I::name())
    }
    fn canon_push(r: &mut Self::R, v: &Self::V) -> Idx<Self> {
        r.push(v.clone())
    }
    fn check<'a>(item: RI<'a, Self>, v: &Self::V) -> Result<(), String> {
        match (item, v) {
            (Some(x), Some(y)) => I::check(x, y).map_err(|e| format!("Some: {e}")),
            (None, None) => Ok(()),
            (Some(_), None) => Err("read Some, pushed None".into()),
            (None, Some(_)) => Err("read None, pushed Some".into()),
        }
    }
}

pub struct Res<A, B>(PhantomData<(A, B)>);
impl<A, B> Spec for Res<A, B>
where
    A: Spec,
    B: Spec,
    A::R: Push<A::V>,
    B::R: Push<B::V>,
{
    type V = Result<A::V, B::V>;
    type R = ResultRegion<A::R, B::R>;
    type M = (A::M, B::M);
    const MODELLED: bool = A::MODELLED && B::MODELLED;
    fn m_push(m: &mut Self::M, v: &Self::V) -> MIdx {
        match v {
            Ok(x) => A::m_push(&mut m.0, x),
            Err(x) => B::m_push(&mut m.1, x),
        };
        MIdx::Opaque
    }
    fn m_clear(m: &mut Self::M) {
        A::m_clear(&mut m.0);
        B::m_clear(&mut m.1);
    }
    fn m_merged(s: &[&Self::M]) -> Self::M {
        let a: Vec<&A::M> = s.iter().map(|x| &x.0).collect();
        let b: Vec<&B::M> = s.iter().map(|x| &x.1).collect();
        (A::m_merged(&a), B::m_merged(&b))
    }
    fn m_layout(m: &Self::M, out: &mut Vec<Slot>) {
        A::m_layout(&m.0, out);
        B::m_layout(&m.1, out);
    }
    fn name() -> String {
        format!("ResultRegion<{}, {}>", A::name(), B::name())
    }
    fn canon_push(r: &mut Self::R, v: &Self::V) -> Idx<Self> {
        r.push(v.clone())
    }
    fn check<'a>(item: RI<'a, Self>, v: &Self::V) -> Result<(), String> {
        match (item, v) {
            (Ok(x), Ok(y)) => A::check(x, y).map_err(|e| format!("Ok: {e}")),
            (Err(x), Err(y)) => B::check(x, y).map_err(|e| format!("Err: {e}")),
            (Ok(_), Err(_)) => Err("read Ok, pushed Err".into()),
            (Err(_), Ok(_)) => Err("read Err, pushed Ok".into()),
        }
    }
}

pub struct Tup2<A, B>(PhantomData<(A, B)>);
impl<A, B> Spec for Tup2<A, B>
where
    A: Spec,
    B: Spec,
    A::R: Push<A::V>,
    B::R: Push<B::V>,
{
    type V = (A::V, B::V);
    type R = TupleABRegion<A::R, B::R>;
    type M = (A::M, B::M);
    const MODELLED: bool = A::MODELLED && B::MODELLED;
    fn m_push(m: &mut Self::M, v: &Self::V) -> MIdx {
        A::m_push(&mut m.0, &v.0);
        B::m_push(&mut m.1, &v.1);
        MIdx::Opaque
    }
    fn m_clear(m: &mut Self::M) {
        A::m_clear(&mut m.0);
        B::m_clear(&mut m.1);
    }
    fn m_merged(s: &[&Self::M]) -> Self::M {
        let a: Vec<&A::M> = s.iter().map(|x| &x.0).collect();
        let b: Vec<&B::M> = s.iter().map(|x| &x.1).collect();
        (A::m_merged(&a), B::m_merged(&b))
    }
    fn m_layout(m: &Self::M, out: &mut Vec<Slot>) {
        A::m_layout(&m.0, out);
        B::m_layout(&m.1, out);
    }
    fn name() -> String {
        format!("TupleABRegion<{}, {}>", A::name(), B::name())
    }
    fn canon_push(r: &mut Self::R, v: &Self::V) -> Idx<Self> {
        r.push(v.clone())
    }
    fn check<'a>(item: RI<'a, Self>, v: &Self::V) -> Result<(), String> {
        A::check(item.0, &v.0).map_err(|e| format!(".0: {e}"))?;
        B::check(item.1, &v.1).map_err(|e| format!(".1: {e}"))
    }
}

pub struct Tup3<A, B, C>(PhantomData<(A, B, C)>);
impl<A, B, C> Spec for Tup3<A, B, C>
where
    A: Spec,
    B: Spec,
    C: Spec,
    A::R: Push<A::V>,
    B::R: Push<B::V>,
    C::R: Push<C::V>,
{
    type V = (A::V, B::V, C::V);
    type R = TupleABCRegion<A::R, B::R, C::R>;
    type M = (A::M, B::M, C::M);
    const MODELLED: bool = A::MODELLED && B::MODELLED && C::MODELLED;
    fn m_push(m: &mut Self::M, v: &Self::V) -> MIdx {
        A::m_push(&mut m.0, &v.0);
        B::m_push(&mut m.1, &v.1);
        C::m_push(&mut m.2, &v.2);
        MIdx::Opaque
    }
    fn m_clear(m: &mut Self::M) {
        A::m_clear(&mut m.0);
        B::m_clear(&mut m.1);
        C::m_clear(&mut m.2);
    }
    fn m_merged(s: &[&Self::M]) -> Self::M {
        let a: Vec<&A::M> = s.iter().map(|x| &x.0).collect();
        let b: Vec<&B::M> = s.iter().map(|x| &x.1).collect();
        let c: Vec<&C::M> = s.iter().map(|x| &x.2).collect();
        (A::m_merged(&a), B::m_merged(&b), C::m_merged(&c))
    }
    fn m_layout(m: &Self::M, out: &mut Vec<Slot>) {
        A::m_layout(&m.0, out);
        B::m_layout(&m.1, out);
        C::m_layout(&m.2, out);
    }
    fn name() -> String {
        format!("TupleABCRegion<{}, {}, {}>", A::name(), B::name(), C::name())
    }
    fn canon_push(r: &mut Self::R, v: &Self::V) -> Idx<Self> {
        r.push(v.clone())
    }
    fn check<'a>(item: RI<'a, Self>, v: &Self::V) -> Result<(), String> {
        A::check(item.0, &v.0).map_err(|e| format!(".0: {e}"))?;
        B::check(item.1, &v.1).map_err(|e| format!(".1: {e}"))?;
        C::check(item.2, &v.2).map_err(|e| format!(".2: {e}"))
    }
}

pub struct Slice<I, O>(PhantomData<(I, O)>);
impl<I, O> Spec for Slice<I, O>
where
    I: Spec,
    I::R: Push<I::V>,
    O: flatcontainer::impls::index::IndexContainer<<I::R as Region>::Index> + IdxModel<<I::R as Region>::Index> + Send + Sync + 'static,
{
    type V = Vec<I::V>;
    type R = SliceRegion<I::R, O>;
    type M = (Vec<MIdx>, I::M);
    const MODELLED: bool = I::MODELLED;
    fn m_push(m: &mut Self::M, v: &Self::V) -> MIdx {
        let start = m.0.len();
        for x in v {
            let i = I::m_push(&mut m.1, x);
            m.0.push(i);
        }
        MIdx::Pair(start, m.0.len())
    }
    fn m_clear(m: &mut Self::M) {
        m.0.clear();
        I::m_clear(&mut m.1);
    }
    fn m_merged(s: &[&Self::M]) -> Self::M {
        let inner: Vec<&I::M> = s.iter().map(|x| &x.1).collect();
        (vec![], I::m_merged(&inner))
    }
    fn m_layout(m: &Self::M, out: &mut Vec<Slot>) {
        O::slots(&m.0, out);
        I::m_layout(&m.1, out);
    }
    fn name() -> String {
        let o = short_type::<O>();
        if o.starts_with("Vec<") {
            format!("SliceRegion<{}>", I::name())
        } else {
            format!("SliceRegion<{}, {}>", I::name(), o)
        }
    }
    fn canon_push(r: &mut Self::R, v: &Self::V) -> (usize, usize) {
        r.push(v.clone())
    }
    fn check<'a>(item: ReadSlice<'a, I::R, O>, v: &Self::V) -> Result<(), String> {
        ensure!(item.len() == v.len(), "len() = {}, pushed {} elements", item.len(), v.len());
        ensure!(item.is_empty() == v.is_empty(), "is_empty() = {} for {} elements", item.is_empty(), v.len());
        for (i, x) in v.iter().enumerate() {
            I::check(item.get(i), x).map_err(|e| format!("get({i}): {e}"))?;
        }
        let mut n = 0;
        for y in item.iter().take(v.len() + 1) {
            ensure!(n < v.len(), "iter() yields more than the {} pushed elements", v.len());
            I::check(y, &v[n]).map_err(|e| format!("iter() position {n}: {e}"))?;
            n += 1;
        }
        ensure!(n == v.len(), "iter() yields {n} elements, pushed {}", v.len());
        // an iterator cloned mid-way yields the same tail
        {
            let mut it = item.iter();
            let half = v.len() / 2;
            for _ in 0..half {
                let _ = it.next();
            }
            let mut n = half;
            for y in it.clone().take(v.len() + 1) {
                ensure!(n < v.len(), "cloned iterator yields more than the remaining elements");
                I::check(y, &v[n]).map_err(|e| format!("cloned iterator position {n}: {e}"))?;
                n += 1;
            }
            ensure!(n == v.len(), "cloned iterator yields {} elements after {half}, expected {}", n - half, v.len() - half);
        }
        crate::engine::iter_laws(&item.iter(), v.len(), &|y, j| I::check(y, &v[j])).map_err(|e| format!("iter(): {e}"))?;
        let mut n = 0;
        for y in item.into_iter().take(v.len() + 1) {
            ensure!(n < v.len(), "into_iter() yields more than the {} pushed elements", v.len());
            I::check(y, &v[n]).map_err(|e| format!("into_iter() position {n}: {e}"))?;
            n += 1;
        }
        ensure!(n == v.len(), "into_iter() yields {n} elements, pushed {}", v.len());
        let o = item.into_owned();
        ensure!(o.same(v), "into_owned gives {}, pushed {}", show(&o), show(v));
        Ok(())
    }
    fn probe_positions<'a>(item: ReadSlice<'a, I::R, O>, v: &Self::V, extra: usize) -> Result<u64, String> {
        probe_slice::<I, O>(item, v, extra, "region-backed")
    }
}

pub fn probe_slice<'a, I: Spec, O>(item: ReadSlice<'a, I::R, O>, v: &Vec<I::V>, extra: usize, repr: &str) -> Result<u64, String>
where
    O: flatcontainer::impls::index::IndexContainer<<I::R as Region>::Index>,
{
    let mut probes = 0;
    // positions that wrap around when added to the item's start offset (wrapping builds)
    for k in 0..4usize {
        let i = usize::MAX - k;
        probes += 1;
        if crate::engine::guard(|| {
            let _ = item.get(i);
        })
        .is_ok()
        {
            return Err(format!("{repr} item of {} elements: get(usize::MAX - {k}) returned an element instead of panicking", v.len()));
        }
    }
    for i in 0..v.len() + extra {
        probes += 1;
        let r = crate::engine::guard(|| I::check(item.get(i), v.get(i).unwrap_or(&v[0])));
        if i < v.len() {
            match r {
                Ok(Ok(())) => {}
                Ok(Err(e)) => return Err(format!("{repr} item of {} elements: get({i}): {e}", v.len())),
                Err(p) => return Err(format!("{repr} item of {} elements: get({i}) panicked: {p}", v.len())),
            }
        } else {
            match crate::engine::guard(|| {
                let _ = item.get(i);
            }) {
                Err(_) => {}
                Ok(()) => {
                    return Err(format!(
                        "{repr} item of {} elements: get({i}) returned an element instead of panicking",
                        v.len()
                    ))
                }
            }
            let _ = r;
        }
    }
    Ok(probes)
}

pub struct Cols<I, O>(PhantomData<(I, O)>);
impl<I, O> Spec for Cols<I, O>
where
    I: Spec,
    I::R: Push<I::V>,
    O: flatcontainer::impls::index::IndexContainer<usize> + IdxModel<usize> + Send + Sync + 'static,
{
    type V = Vec<I::V>;
    type R = ColumnsRegion<I::R, O>;
    type M = ColsM<I::M>;
    const MODELLED: bool = I::MODELLED;
    fn m_push(m: &mut Self::M, v: &Self::V) -> MIdx {
        while m.cols.len() < v.len() {
            m.cols.push(Default::default());
        }
        for (c, x) in m.cols.iter_mut().zip(v) {
            I::m_push(c, x);
        }
        m.cells += v.len();
        m.row_offs.push(m.cells);
        MIdx::Dense(m.row_offs.len() - 2)
    }
    fn m_clear(m: &mut Self::M) {
        for c in &mut m.cols {
            I::m_clear(c);
        }
        m.row_offs = vec![0];
        m.cells = 0;
    }
    fn m_merged(s: &[&Self::M]) -> Self::M {
        let n = s.iter().map(|x| x.cols.len()).max().unwrap_or(0);
        let cols = (0..n)
            .map(|i| {
                let col: Vec<&I::M> = s.iter().filter_map(|x| x.cols.get(i)).collect();
                I::m_merged(&col)
            })
            .collect();
        ColsM { cols, row_offs: vec![0], cells: 0 }
    }
    fn m_layout(m: &Self::M, out: &mut Vec<Slot>) {
        out.push(Slot { kind: Kind::Structure, used: m.cols.len() * std::mem::size_of::<I::R>() });
        for c in &m.cols {
            I::m_layout(c, out);
        }
        offsets_slots::<O>(&m.row_offs, out);
        out.push(Slot { kind: Kind::Entries, used: m.cells * std::mem::size_of::<<I::R as Region>::Index>() });
    }
    fn name() -> String {
        format!("ColumnsRegion<{}, {}>", I::name(), short_type::<O>())
    }
    fn canon_push(r: &mut Self::R, v: &Self::V) -> usize {
        r.push(v.clone())
    }
    fn check<'a>(item: ReadColumns<'a, I::R>, v: &Self::V) -> Result<(), String> {
        ensure!(item.len() == v.len(), "row len() = {}, pushed {} cells", item.len(), v.len());
        ensure!(item.is_empty() == v.is_empty(), "row is_empty() = {} for {} cells", item.is_empty(), v.len());
        for (i, x) in v.iter().enumerate() {
            I::check(item.get(i), x).map_err(|e| format!("get({i}): {e}"))?;
        }
        let mut n = 0;
        let it = item.iter();
        let hint = it.size_hint();
        ensure!(
            hint.0 <= v.len() && hint.1.map(|h| h >= v.len()).unwrap_or(true),
            "row iterator size_hint {:?} for {} cells",
            hint,
            v.len()
        );
        ensure!(it.len() == v.len(), "ExactSizeIterator::len() = {} for {} cells", it.len(), v.len());
        for y in it.take(v.len() + 1) {
            ensure!(n < v.len(), "iter() yields more than the {} pushed cells", v.len());
            I::check(y, &v[n]).map_err(|e| format!("iter() position {n}: {e}"))?;
            n += 1;
        }
        ensure!(n == v.len(), "iter() yields {n} cells, pushed {}", v.len());
        let o = item.into_owned();
        ensure!(o.same(v), "into_owned gives {}, pushed {}", show(&o), show(v));
        Ok(())
    }
    fn probe_positions<'a>(item: ReadColumns<'a, I::R>, v: &Self::V, extra: usize) -> Result<u64, String> {
        probe_cols::<I>(item, v, extra, "region-backed")
    }
}

pub fn probe_cols<'a, I: Spec>(item: ReadColumns<'a, I::R>, v: &Vec<I::V>, extra: usize, repr: &str) -> Result<u64, String> {
    let mut probes = 0;
    for k in 0..4usize {
        let i = usize::MAX - k;
        probes += 1;
        if crate::engine::guard(|| {
            let _ = item.get(i);
        })
        .is_ok()
        {
            return Err(format!("{repr} row of {} cells: get(usize::MAX - {k}) returned a cell instead of panicking", v.len()));
        }
    }
    for i in 0..v.len() + extra {
        probes += 1;
        if i < v.len() {
            match crate::engine::guard(|| I::check(item.get(i), &v[i])) {
                Ok(Ok(())) => {}
                Ok(Err(e)) => return Err(format!("{repr} row of {} cells: get({i}): {e}", v.len())),
                Err(p) => return Err(format!("{repr} row of {} cells: get({i}) panicked: {p}", v.len())),
            }
        } else if crate::engine::guard(|| {
            let _ = item.get(i);
        })
        .is_ok()
        {
            return Err(format!("{repr} row of {} cells: get({i}) returned a cell instead of panicking", v.len()));
        }
    }
    Ok(probes)
}

// ---------------------------------------------------------------------------------------------
// entries

pub struct Form<S: Spec> {
    pub name: &'static str,
    pub f: fn(&mut S::R, &S::V) -> Idx<S>,
}
impl<S: Spec> Clone for Form<S> {
    fn clone(&self) -> Self {
        Form { name: self.name, f: self.f }
    }
}

pub struct ResForm<S: Spec> {
    pub name: &'static str,
    pub f: fn(&mut S::R, &[S::V]),
    /// which items of a batch this form announces (array forms only take items of one length)
    pub announces: fn(&S::V) -> bool,
}
impl<S: Spec> Clone for ResForm<S> {
    fn clone(&self) -> Self {
        ResForm { name: self.name, f: self.f, announces: self.announces }
    }
}

#[derive(Clone, Copy, PartialEq, Eq, Debug)]
pub enum Coded {
    No,
    Dictionary,
    Huffman,
}

pub struct Entry<S: Spec> {
    /// small alphabet, simplest first
    pub values: Vec<S::V>,
    /// additional values for the single-push sweep (C01)
    pub large: Vec<S::V>,
    pub forms: Vec<Form<S>>,
    pub reserve_forms: Vec<ResForm<S>>,
    pub clone_fn: Option<fn(&S::R) -> S::R>,
    pub clone_from_fn: Option<fn(&mut S::R, &S::R)>,
    pub ser: Option<fn(&S::R) -> Result<String, String>>,
    pub de: Option<fn(&str) -> Result<S::R, String>>,
    /// complete rendering of the implementation state; None: no state matching
    pub render: Option<fn(&S::R) -> String>,
    /// (==, partial_cmp, cmp) of two read items (C15)
    pub cmp: Option<for<'a, 'b> fn(&'b RI<'a, S>, &'b RI<'a, S>) -> (bool, Option<std::cmp::Ordering>, std::cmp::Ordering)>,
    /// ordering of the owned model values
    pub vcmp: Option<fn(&S::V, &S::V) -> std::cmp::Ordering>,
    pub has_heap: bool,
    pub has_reserve_regions: bool,
    /// indices are 0,1,2,... (C12)
    pub dense: bool,
    /// contains strings somewhere (C04)
    pub strings: bool,
    /// contains a CollapseSequence somewhere
    pub collapse: bool,
    /// vector-backed structural region in the sense of C17
    pub vector_backed: bool,
    /// plain-data payload (C17: allocator must not be called at all)
    pub plain: bool,
    pub coded: Coded,
    /// zero-sized elements: never render or iterate element-wise
    pub zst: bool,
}

impl<S: Spec> Clone for Entry<S> {
    fn clone(&self) -> Self {
        Entry {
            values: self.values.clone(),
            large: self.large.clone(),
            forms: self.forms.clone(),
            reserve_forms: self.reserve_forms.clone(),
            clone_fn: self.clone_fn,
            clone_from_fn: self.clone_from_fn,
            ser: self.ser,
            de: self.de,
            render: self.render,
            cmp: self.cmp,
            vcmp: self.vcmp,
            has_heap: self.has_heap,
            has_reserve_regions: self.has_reserve_regions,
            dense: self.dense,
            strings: self.strings,
            collapse: self.collapse,
            vector_backed: self.vector_backed,
            plain: self.plain,
            coded: self.coded,
            zst: self.zst,
        }
    }
}

impl<S: Spec> Entry<S> {
    pub fn new(values: Vec<S::V>) -> Self {
        Entry {
            values,
            large: vec![],
            forms: vec![],
            reserve_forms: vec![],
            clone_fn: None,
            clone_from_fn: None,
            ser: None,
            de: None,
            render: None,
            cmp: None,
            vcmp: None,
            has_heap: true,
            has_reserve_regions: true,
            dense: false,
            strings: false,
            collapse: false,
            vector_backed: false,
            plain: false,
            coded: Coded::No,
            zst: false,
        }
    }
    pub fn large(mut self, l: Vec<S::V>) -> Self {
        self.large = l;
        self
    }
    pub fn form(mut self, name: &'static str, f: fn(&mut S::R, &S::V) -> Idx<S>) -> Self {
        self.forms.push(Form { name, f });
        self
    }
    pub fn rform(mut self, name: &'static str, f: fn(&mut S::R, &[S::V])) -> Self {
        self.reserve_forms.push(ResForm { name, f, announces: |_| true });
        self
    }
    pub fn rform_some(mut self, name: &'static str, f: fn(&mut S::R, &[S::V]), announces: fn(&S::V) -> bool) -> Self {
        self.reserve_forms.push(ResForm { name, f, announces });
        self
    }
    pub fn cloneable(mut self) -> Self
    where
        S::R: Clone,
    {
        self.clone_fn = Some(|r| r.clone());
        self.clone_from_fn = Some(|d, s| d.clone_from(s));
        self
    }
    pub fn serde(mut self) -> Self
    where
        S::R: serde::Serialize + for<'a> serde::Deserialize<'a>,
    {
        self.ser = Some(|r| serde_json::to_string(r).map_err(|e| e.to_string()));
        self.de = Some(|s| serde_json::from_str(s).map_err(|e| e.to_string()));
        self
    }
    pub fn debug(mut self) -> Self
    where
        S::R: Debug,
    {
        self.render = Some(|r| format!("{:?}", r));
        self
    }
    pub fn ordered(mut self) -> Self
    where
        for<'a> RI<'a, S>: Ord,
        S::V: Ord,
    {
        self.cmp = Some(|x, y| (x == y, x.partial_cmp(y), x.cmp(y)));
        self.vcmp = Some(|x, y| x.cmp(y));
        self
    }
    pub fn render_with(mut self, f: fn(&S::R) -> String) -> Self {
        self.render = Some(f);
        self
    }
    pub fn flags(mut self, f: &str) -> Self {
        for w in f.split_whitespace() {
            match w {
                "dense" => self.dense = true,
                "strings" => self.strings = true,
                "collapse" => self.collapse = true,
                "vector" => self.vector_backed = true,
                "plain" => self.plain = true,
                "zst" => self.zst = true,
                "noheap" => self.has_heap = false,
                "noreserve" => self.has_reserve_regions = false,
                "dictionary" => self.coded = Coded::Dictionary,
                "huffman" => self.coded = Coded::Huffman,
                other => panic!("unknown flag {other}"),
            }
        }
        self
    }
}

pub trait Visitor {
    fn visit<S: Spec>(&mut self, e: Entry<S>);
}

// ---------------------------------------------------------------------------------------------
// generic input forms

pub mod forms {
    use super::*;
    use flatcontainer::PushIter;

    pub fn owned<R: Push<V>, V: Clone>(r: &mut R, v: &V) -> R::Index {
        r.push(v.clone())
    }
    /// an owned vector whose capacity exceeds its length (capacity is not part of the value)
    pub fn owned_spare<R: Push<Vec<T>>, T: Clone>(r: &mut R, v: &Vec<T>) -> R::Index {
        let mut c = Vec::with_capacity(v.len() + 4096);
        c.extend_from_slice(v);
        r.push(c)
    }
    pub fn by_ref<R: for<'a> Push<&'a V>, V>(r: &mut R, v: &V) -> R::Index {
        r.push(v)
    }
    pub fn by_ref_ref<R: for<'a, 'b> Push<&'a &'b V>, V>(r: &mut R, v: &V) -> R::Index {
        r.push(&v)
    }
    pub fn str_<R: for<'a> Push<&'a str>>(r: &mut R, v: &String) -> R::Index {
        r.push(v.as_str())
    }
    pub fn ref_str<R: for<'a, 'b> Push<&'a &'b str>>(r: &mut R, v: &String) -> R::Index {
        r.push(&v.as_str())
    }
    pub fn slice<R: for<'a> Push<&'a [T]>, T>(r: &mut R, v: &Vec<T>) -> R::Index {
        r.push(v.as_slice())
    }
    pub fn ref_slice<R: for<'a, 'b> Push<&'a &'b [T]>, T>(r: &mut R, v: &Vec<T>) -> R::Index {
        r.push(&v.as_slice())
    }
    pub fn iter<R: Push<PushIter<std::vec::IntoIter<T>>>, T: Clone>(r: &mut R, v: &Vec<T>) -> R::Index {
        r.push(PushIter(v.clone().into_iter()))
    }
    pub fn iter_vec<R: Push<PushIter<Vec<T>>>, T: Clone>(r: &mut R, v: &Vec<T>) -> R::Index {
        r.push(PushIter(v.clone()))
    }
    /// `[T; N]` for N <= 3, falls back to the slice form for longer values.
    pub fn array<R, T: Clone>(r: &mut R, v: &Vec<T>) -> R::Index
    where
        R: Push<[T; 0]> + Push<[T; 1]> + Push<[T; 2]> + Push<[T; 3]> + for<'a> Push<&'a [T]>,
    {
        match v.as_slice() {
            [] => r.push([] as [T; 0]),
            [a] => r.push([a.clone()]),
            [a, b] => r.push([a.clone(), b.clone()]),
            [a, b, c] => r.push([a.clone(), b.clone(), c.clone()]),
            s => r.push(s),
        }
    }
    pub fn ref_array<R, T>(r: &mut R, v: &Vec<T>) -> R::Index
    where
        R: for<'a> Push<&'a [T; 0]> + for<'a> Push<&'a [T; 1]> + for<'a> Push<&'a [T; 2]> + for<'a> Push<&'a [T; 3]> + for<'a> Push<&'a [T]>,
    {
        match v.len() {
            0 => r.push(<&[T; 0]>::try_from(v.as_slice()).unwrap()),
            1 => r.push(<&[T; 1]>::try_from(v.as_slice()).unwrap()),
            2 => r.push(<&[T; 2]>::try_from(v.as_slice()).unwrap()),
            3 => r.push(<&[T; 3]>::try_from(v.as_slice()).unwrap()),
            _ => r.push(v.as_slice()),
        }
    }
    pub fn ref_ref_array<R, T>(r: &mut R, v: &Vec<T>) -> R::Index
    where
        R: for<'a, 'b> Push<&'a &'b [T; 0]>
            + for<'a, 'b> Push<&'a &'b [T; 1]>
            + for<'a, 'b> Push<&'a &'b [T; 2]>
            + for<'a, 'b> Push<&'a &'b [T; 3]>
            + for<'a> Push<&'a [T]>,
    {
        match v.len() {
            0 => r.push(&<&[T; 0]>::try_from(v.as_slice()).unwrap()),
            1 => r.push(&<&[T; 1]>::try_from(v.as_slice()).unwrap()),
            2 => r.push(&<&[T; 2]>::try_from(v.as_slice()).unwrap()),
            3 => r.push(&<&[T; 3]>::try_from(v.as_slice()).unwrap()),
            _ => r.push(v.as_slice()),
        }
    }
    /// `Vec<&X>`: the inner region receives `&X` through the owned-vector path.
    pub fn vec_of_refs<R: for<'a> Push<Vec<&'a X>>, X>(r: &mut R, v: &Vec<X>) -> R::Index {
        r.push(v.iter().collect::<Vec<&X>>())
    }
    /// `Vec<&str>`: the inner region receives `&str`.
    pub fn vec_of_str<R: for<'a> Push<Vec<&'a str>>>(r: &mut R, v: &Vec<String>) -> R::Index {
        r.push(v.iter().map(|s| s.as_str()).collect::<Vec<&str>>())
    }
    /// `&[&str]`: the inner region receives `&&str`.
    pub fn slice_of_str<R: for<'a, 'b> Push<&'a [&'b str]>>(r: &mut R, v: &Vec<String>) -> R::Index {
        let t: Vec<&str> = v.iter().map(|s| s.as_str()).collect();
        r.push(t.as_slice())
    }
    pub fn opt_as_ref<R: for<'a> Push<Option<&'a T>>, T>(r: &mut R, v: &Option<T>) -> R::Index {
        r.push(v.as_ref())
    }
    pub fn opt_str<R: for<'a> Push<Option<&'a str>>>(r: &mut R, v: &Option<String>) -> R::Index {
        r.push(v.as_deref())
    }
    pub fn res_as_ref<R: for<'a> Push<Result<&'a A, &'a B>>, A, B>(r: &mut R, v: &Result<A, B>) -> R::Index {
        r.push(v.as_ref())
    }
    pub fn tup2_refs<R: for<'a> Push<(&'a A, &'a B)>, A, B>(r: &mut R, v: &(A, B)) -> R::Index {
        r.push((&v.0, &v.1))
    }
    pub fn tup3_refs<R: for<'a> Push<(&'a A, &'a B, &'a C)>, A, B, C>(r: &mut R, v: &(A, B, C)) -> R::Index {
        r.push((&v.0, &v.1, &v.2))
    }
    /// A region-backed read item taken from another region of the same type.
    pub fn read_item<S: Spec>(r: &mut S::R, v: &S::V) -> Idx<S>
    where
        for<'a> S::R: Push<RI<'a, S>>,
    {
        let mut donor = <S::R as Default>::default();
        // the item is neither the first nor the last one in the donor, so that its offsets there
        // differ from 0 and from the offsets it gets in the target
        let _ = S::canon_push(&mut donor, v);
        let i = S::canon_push(&mut donor, v);
        let _ = S::canon_push(&mut donor, v);
        let item = donor.index(i);
        r.push(item)
    }
    /// The owned-borrowed representation of a read item (`IntoOwned::borrow_as`).
    pub fn borrowed_item<S: Spec>(r: &mut S::R, v: &S::V) -> Idx<S>
    where
        for<'a> S::R: Push<RI<'a, S>>,
    {
        let item = <RI<'_, S> as IntoOwned>::borrow_as(v);
        r.push(item)
    }

    // reserve_items forms
    pub fn res_refs<R: for<'a> flatcontainer::ReserveItems<&'a V>, V>(r: &mut R, batch: &[V]) {
        r.reserve_items(batch.iter())
    }
    pub fn res_owned<R: flatcontainer::ReserveItems<V>, V: Clone>(r: &mut R, batch: &[V]) {
        r.reserve_items(batch.iter().cloned())
    }
    pub fn res_str<R: for<'a> flatcontainer::ReserveItems<&'a str>>(r: &mut R, batch: &[String]) {
        r.reserve_items(batch.iter().map(|s| s.as_str()))
    }
    pub fn res_slice<R: for<'a> flatcontainer::ReserveItems<&'a [T]>, T>(r: &mut R, batch: &[Vec<T>]) {
        r.reserve_items(batch.iter().map(|s| s.as_slice()))
    }
    pub fn res_iter<R: flatcontainer::ReserveItems<PushIter<Vec<T>>>, T: Clone>(r: &mut R, batch: &[Vec<T>]) {
        r.reserve_items(batch.iter().map(|s| PushIter(s.clone())))
    }
    /// `&[T; 2]`: announces the two-element items of the batch only
    pub fn res_array2<R: for<'a> flatcontainer::ReserveItems<&'a [T; 2]>, T>(r: &mut R, batch: &[Vec<T>]) {
        let arrays: Vec<&[T; 2]> = batch.iter().filter_map(|v| <&[T; 2]>::try_from(v.as_slice()).ok()).collect();
        r.reserve_items(arrays.into_iter())
    }
    pub fn res_read_items<S: Spec>(r: &mut S::R, batch: &[S::V])
    where
        for<'a> S::R: flatcontainer::ReserveItems<RI<'a, S>>,
    {
        let mut donor = <S::R as Default>::default();
        let idx: Vec<Idx<S>> = batch.iter().map(|v| S::canon_push(&mut donor, v)).collect();
        let d = &donor;
        flatcontainer::ReserveItems::reserve_items(r, idx.iter().map(move |i| d.index(*i)))
    }
}
