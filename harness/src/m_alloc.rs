//! C17: allocation discipline. No state matching (capacity *is* the state here).
//!
//! History = up to two populating pushes, then ONE terminal step
//!   "pre-size by route X for batch B, push exactly B, compare capacities / count allocator calls".
//! A second machine sweeps the logarithmic bound for runs without pre-sizing.

use crate::alloc_count;
use crate::engine::{guard, Machine, OpId, Step};
use crate::spec::*;
use flatcontainer::Region;

#[derive(Clone, Debug)]
enum Route {
    ReserveItems(usize),
    ReserveRegions,
    MergeOne,
    MergeWithSelf,
}

pub struct AllocMachine<S: Spec> {
    e: Entry<S>,
    values: Vec<S::V>,
    batches: Vec<Vec<usize>>,
    routes: Vec<Route>,
    quiet_form: Option<usize>,
    /// measure the owned canonical form (with a cloning baseline) instead of the by-reference form
    use_owned: bool,
    r: S::R,
    pushed: Vec<usize>,
    done: bool,
    max_prefix: usize,
    tags: Vec<String>,
}

fn caps<R: Region>(r: &R) -> Vec<usize> {
    let mut v = Vec::new();
    r.heap_size(|_, c| v.push(c));
    v
}

/// A form that does not allocate in the harness itself (takes the pre-built value by reference).
pub fn quiet_form<S: Spec>(e: &Entry<S>) -> Option<usize> {
    e.forms.iter().position(|f| f.name.starts_with('&') && !f.name.starts_with("&&"))
}

impl<S: Spec> AllocMachine<S> {
    pub fn new(e: Entry<S>, max_prefix: usize, max_batch: usize, use_owned: bool) -> Self {
        // alphabet: the small values plus the first large one (a 300-element item where available)
        let mut values = e.values.clone();
        if let Some(l) = e.large.first() {
            values.push(l.clone());
        }
        let n = values.len();
        let mut batches: Vec<Vec<usize>> = vec![vec![]];
        let mut frontier: Vec<Vec<usize>> = vec![vec![]];
        for _ in 0..max_batch {
            let mut next = Vec::new();
            for b in &frontier {
                for v in 0..n {
                    let mut nb = b.clone();
                    nb.push(v);
                    next.push(nb);
                }
            }
            batches.extend(next.iter().cloned());
            frontier = next;
        }
        let mut routes: Vec<Route> = (0..e.reserve_forms.len()).map(Route::ReserveItems).collect();
        if e.has_reserve_regions {
            routes.push(Route::ReserveRegions);
        }
        routes.push(Route::MergeOne);
        routes.push(Route::MergeWithSelf);
        let quiet_form = quiet_form(&e);
        AllocMachine { e, values, batches, routes, quiet_form, use_owned, r: Default::default(), pushed: vec![], done: false, max_prefix, tags: vec![] }
    }

    /// (value id, repetitions): enough copies of the biggest value to put more than 1.5 MiB into the
    /// largest storage (size thresholds of pre-sizing code)
    fn bulk(&self) -> (usize, usize) {
        let mut best = (0usize, 1usize);
        for (i, v) in self.values.iter().enumerate() {
            let mut m = S::M::default();
            S::m_push(&mut m, v);
            let mut l = Vec::new();
            S::m_layout(&m, &mut l);
            let per = l.iter().map(|s| s.used).max().unwrap_or(0);
            if per > best.1 {
                best = (i, per);
            }
        }
        (best.0, ((3 << 19) / best.1 + 1).min(400_000))
    }

    fn region_of(&self, ids: &[usize]) -> S::R {
        let mut r: S::R = Default::default();
        for i in ids {
            let _ = S::canon_push(&mut r, &self.values[*i]);
        }
        r
    }
}

impl<S: Spec> Machine for AllocMachine<S> {
    fn name(&self) -> String {
        format!("alloc/presized/{}/{}", if self.use_owned { "owned" } else { "by-ref" }, S::name())
    }
    fn reset(&mut self) {
        self.r = Default::default();
        self.pushed.clear();
        self.done = false;
        self.tags.clear();
    }
    fn enabled(&self) -> Vec<OpId> {
        if self.done {
            return vec![];
        }
        let mut v = Vec::new();
        if self.pushed.len() < self.max_prefix {
            v.extend(0..self.values.len() as u32);
        }
        let nb = self.batches.len() as u32;
        for r in 0..self.routes.len() as u32 {
            for b in 0..nb {
                v.push(1000 + r * nb + b);
            }
        }
        if self.pushed.is_empty() && !self.e.zst && S::MODELLED {
            // bulk batches: many copies of one value, more than 1 MiB in the largest storage
            for r in 0..self.routes.len() as u32 {
                v.push(900 + r);
            }
        }
        v
    }
    fn describe(&self, op: OpId) -> String {
        if (900..1000).contains(&op) {
            let (v, n) = self.bulk();
            let route = match &self.routes[(op - 900) as usize] {
                Route::ReserveItems(f) => self.e.reserve_forms[*f].name.to_string(),
                Route::ReserveRegions => "reserve_regions([region holding the batch])".into(),
                Route::MergeOne => "region := merge_regions([region holding the batch])".into(),
                Route::MergeWithSelf => "region := merge_regions([self, region holding the batch])".into(),
            };
            return format!("{route}; then push exactly {n} copies of {}", S::show(&self.values[v]));
        }
        if op < 1000 {
            return format!("push({})", S::show(&self.values[op as usize]));
        }
        let nb = self.batches.len() as u32;
        let (r, b) = ((op - 1000) / nb, (op - 1000) % nb);
        let batch: Vec<String> = self.batches[b as usize].iter().map(|i| S::show(&self.values[*i])).collect();
        let route = match &self.routes[r as usize] {
            Route::ReserveItems(f) => self.e.reserve_forms[*f].name.to_string(),
            Route::ReserveRegions => "reserve_regions([region holding the batch])".into(),
            Route::MergeOne => "region := merge_regions([region holding the batch])".into(),
            Route::MergeWithSelf => "region := merge_regions([self, region holding the batch]), re-push own items".into(),
        };
        format!("{route}; then push exactly [{}]", batch.join(", "))
    }
    fn step(&mut self, op: OpId) -> Step {
        if op < 900 {
            let v = self.values[op as usize].clone();
            let r = &mut self.r;
            match guard(|| S::canon_push(r, &v)) {
                Ok(_) => {}
                Err(p) if self.e.zst && crate::engine::exhaustion(&p) => return Step::Refused(p),
                Err(p) => return Step::Violation(format!("push panicked: {p}")),
            }
            self.pushed.push(op as usize);
            return Step::Ok;
        }
        self.done = true;
        let nb = self.batches.len() as u32;
        let (ri, bi, ids) = if op < 1000 {
            let (v, n) = self.bulk();
            (op - 900, 0, vec![v; n])
        } else {
            let (ri, bi) = ((op - 1000) / nb, (op - 1000) % nb);
            (ri, bi, self.batches[bi as usize].clone())
        };
        let _ = bi;
        let route = self.routes[ri as usize].clone();
        let mut batch: Vec<S::V> = ids.iter().map(|i| self.values[*i].clone()).collect();
        if let Route::ReserveItems(f) = &route {
            // forms that can only announce some items (arrays of one length) announce exactly those
            let ann = self.e.reserve_forms[*f].announces;
            batch.retain(|v| ann(v));
        }
        let mut to_push: Vec<S::V> = Vec::new();
        // pre-size
        let pre = match route {
            Route::ReserveItems(f) => {
                let ff = self.e.reserve_forms[f].f;
                let r = &mut self.r;
                guard(|| ff(r, &batch))
            }
            Route::ReserveRegions => {
                let src = self.region_of(&ids);
                let r = &mut self.r;
                guard(|| r.reserve_regions(std::iter::once(&src)))
            }
            Route::MergeOne => {
                let src = self.region_of(&ids);
                match guard(|| S::R::merge_regions(std::iter::once(&src))) {
                    Ok(m) => {
                        self.r = m;
                        Ok(())
                    }
                    Err(p) => Err(p),
                }
            }
            Route::MergeWithSelf => {
                let src = self.region_of(&ids);
                let cur = &self.r;
                match guard(|| S::R::merge_regions([cur, &src].into_iter())) {
                    Ok(m) => {
                        self.r = m;
                        to_push.extend(self.pushed.iter().map(|i| self.values[*i].clone()));
                        Ok(())
                    }
                    Err(p) => Err(p),
                }
            }
        };
        if let Err(p) = pre {
            if self.e.zst && crate::engine::exhaustion(&p) {
                // more than usize::MAX zero-sized elements announced: resource exhaustion, not in the model
                return Step::Refused(p);
            }
            return Step::Violation(format!("pre-sizing panicked: {p}"));
        }
        to_push.extend(batch);
        // Two windows are explored per (state, route, batch): the by-reference form (the harness itself
        // allocates nothing) and the owned canonical form, whose harness-side cost is exactly the
        // cloning of the values and is measured separately as the baseline.
        let owned_window = self.use_owned;
        let form = if owned_window { None } else { self.quiet_form.map(|f| self.e.forms[f].f) };
        let baseline = if owned_window {
            let a0 = alloc_count::calls();
            for v in &to_push {
                std::hint::black_box(v.clone());
            }
            alloc_count::calls() - a0
        } else {
            0
        };
        let before = caps(&self.r);
        let r = &mut self.r;
        let pushes = to_push.len();
        let res = guard(|| {
            let a0 = alloc_count::calls();
            match form {
                Some(f) => {
                    for v in &to_push {
                        let _ = f(r, v);
                    }
                }
                None => {
                    for v in &to_push {
                        let _ = S::canon_push(r, v);
                    }
                }
            }
            (alloc_count::calls() - a0).saturating_sub(baseline)
        });
        let calls = match res {
            Ok(c) => c,
            Err(p) if self.e.zst && crate::engine::exhaustion(&p) => return Step::Refused(p),
            Err(p) => return Step::Violation(format!("push panicked: {p}")),
        };
        let after = caps(&self.r);
        if before != after {
            return Step::Violation(format!(
                "capacities changed while pushing exactly the announced contents ({pushes} items): {before:?} -> {after:?}"
            ));
        }
        if self.e.plain && (form.is_some() || owned_window) && calls != 0 {
            return Step::Violation(format!(
                "{calls} allocator calls{} while pushing exactly the announced plain-data contents ({pushes} items, {} form); capacities {before:?}",
                if owned_window { " beyond cloning the inputs" } else { "" },
                if owned_window { "owned" } else { "by-reference" }
            ));
        }
        self.tags.push(format!("route{}:batch{}:prefix{}", ri, ids.len(), self.pushed.len()));
        Step::Ok
    }
    fn fingerprint(&self) -> Option<String> {
        None
    }
    fn drain_tags(&mut self) -> Vec<String> {
        std::mem::take(&mut self.tags)
    }
}

/// Logarithmic bound without pre-sizing: n pushes of one of three item patterns.
pub struct LogMachine<S: Spec> {
    e: Entry<S>,
    ns: Vec<usize>,
    use_owned: bool,
    quiet_form: Option<usize>,
    done: bool,
    tags: Vec<String>,
}

impl<S: Spec> LogMachine<S> {
    pub fn new(e: Entry<S>, max_log2: u32, use_owned: bool) -> Self {
        let ns = (6..=max_log2).map(|k| 1usize << k).collect();
        let quiet_form = if use_owned { None } else { quiet_form(&e) };
        LogMachine { e, ns, use_owned, quiet_form, done: false, tags: vec![] }
    }
}

impl<S: Spec> Machine for LogMachine<S> {
    fn name(&self) -> String {
        format!("alloc/log/{}/{}", if self.use_owned { "owned" } else { "by-ref" }, S::name())
    }
    fn reset(&mut self) {
        self.done = false;
        self.tags.clear();
    }
    fn enabled(&self) -> Vec<OpId> {
        if self.done {
            vec![]
        } else {
            (0..(self.ns.len() * 3) as u32).collect()
        }
    }
    fn describe(&self, op: OpId) -> String {
        let (n, pat) = (self.ns[op as usize / 3], op % 3);
        format!(
            "{n} pushes without pre-sizing, pattern {}",
            ["round robin over the alphabet", "the last (widest) value only", "runs of three equal values"][pat as usize]
        )
    }
    fn step(&mut self, op: OpId) -> Step {
        self.done = true;
        let (n, pat) = (self.ns[op as usize / 3], op as usize % 3);
        let vals = &self.e.values;
        let nv = vals.len();
        let seq: Vec<&S::V> = (0..n)
            .map(|i| match pat {
                0 => &vals[i % nv],
                1 => &vals[nv - 1],
                _ => &vals[(i / 3) % nv],
            })
            .collect();
        let mut r: S::R = Default::default();
        let form = self.quiet_form.map(|f| self.e.forms[f].f);
        // the owned canonical form clones in the harness: that cost is measured and subtracted
        let baseline = if form.is_none() {
            let a0 = alloc_count::calls();
            for v in &seq {
                std::hint::black_box((*v).clone());
            }
            alloc_count::calls() - a0
        } else {
            0
        };
        let res = guard(|| {
            let a0 = alloc_count::calls();
            for v in &seq {
                match form {
                    Some(f) => {
                        let _ = f(&mut r, v);
                    }
                    None => {
                        let _ = S::canon_push(&mut r, v);
                    }
                }
            }
            (alloc_count::calls() - a0).saturating_sub(baseline)
        });
        let calls = match res {
            Ok(c) => c,
            Err(p) if self.e.zst && crate::engine::exhaustion(&p) => return Step::Refused(p),
            Err(p) => return Step::Violation(format!("push panicked: {p}")),
        };
        let mut storages = 0usize;
        let mut max_elems = 2usize;
        r.heap_size(|u, _| {
            storages += 1;
            max_elems = max_elems.max(u);
        });
        // every storage is a growable vector: geometric growth by any factor >= 1.5 needs at most
        // 2 * ceil(log2(bytes)) + 8 calls per storage (doubling needs ceil(log2) + 2); linear growth exceeds
        // this from a few hundred items on
        let log = (usize::BITS - (max_elems - 1).leading_zeros()) as u64;
        let bound = storages as u64 * (2 * log + 8);
        if calls > bound {
            return Step::Violation(format!(
                "{calls} allocator calls for {n} pushes; {storages} storages with at most {max_elems} bytes each allow {bound} (O(log n) per storage)"
            ));
        }
        self.tags.push(format!("n{}:pattern{}:calls<={}", n, pat, bound));
        Step::Ok
    }
    fn fingerprint(&self) -> Option<String> {
        None
    }
    fn drain_tags(&mut self) -> Vec<String> {
        std::mem::take(&mut self.tags)
    }
}

// ---------------------------------------------------------------------------------------------
// FlatStack's vector index storage

use crate::m_stack::{StackCaps, FS};

pub struct StackAllocMachine<S: Spec, C: flatcontainer::impls::index::IndexContainer<Idx<S>> + 'static> {
    e: Entry<S>,
    caps: StackCaps<S, C>,
    values: Vec<S::V>,
    batches: Vec<Vec<usize>>,
    st: FS<S, C>,
    copied: Vec<usize>,
    done: bool,
    tags: Vec<String>,
}

impl<S: Spec, C: flatcontainer::impls::index::IndexContainer<Idx<S>> + 'static> StackAllocMachine<S, C> {
    pub fn new(e: Entry<S>, caps: StackCaps<S, C>, max_batch: usize) -> Self {
        let values = e.values.clone();
        let n = values.len();
        let mut batches: Vec<Vec<usize>> = vec![vec![]];
        let mut frontier: Vec<Vec<usize>> = vec![vec![]];
        for _ in 0..max_batch {
            let mut next = Vec::new();
            for b in &frontier {
                for v in 0..n {
                    let mut nb = b.clone();
                    nb.push(v);
                    next.push(nb);
                }
            }
            batches.extend(next.iter().cloned());
            frontier = next;
        }
        StackAllocMachine { e, caps, values, batches, st: Default::default(), copied: vec![], done: false, tags: vec![] }
    }
    fn stack_of(&self, ids: &[usize]) -> FS<S, C> {
        let mut s: FS<S, C> = Default::default();
        let f = self.caps.copy_owned.unwrap();
        for i in ids {
            f(&mut s, &self.values[*i]);
        }
        s
    }
}

fn stack_caps<S: Spec, C: flatcontainer::impls::index::IndexContainer<Idx<S>>>(s: &FS<S, C>) -> Vec<usize> {
    let mut v = Vec::new();
    s.heap_size(|_, c| v.push(c));
    v
}

impl<S: Spec, C: flatcontainer::impls::index::IndexContainer<Idx<S>> + 'static> Machine for StackAllocMachine<S, C> {
    fn name(&self) -> String {
        format!("alloc/stack/FlatStack<{}, {}>", S::name(), self.caps.cname)
    }
    fn reset(&mut self) {
        self.st = Default::default();
        self.copied.clear();
        self.done = false;
        self.tags.clear();
    }
    fn enabled(&self) -> Vec<OpId> {
        if self.done {
            return vec![];
        }
        let mut v = Vec::new();
        if self.copied.len() < 1 {
            v.extend(0..self.values.len() as u32);
        }
        if self.copied.is_empty() && self.caps.extend.is_some() && self.e.plain {
            // many small extend calls without pre-sizing (800 + log2 n)
            v.extend([806u32, 808, 810]);
        }
        let nb = self.batches.len() as u32;
        for r in 0..6u32 {
            if r == 4 && self.caps.reserve_items.is_none() {
                continue;
            }
            if r == 5 && !self.e.has_reserve_regions {
                continue;
            }
            for b in 0..nb {
                v.push(1000 + r * nb + b);
            }
        }
        v
    }
    fn describe(&self, op: OpId) -> String {
        if (800..900).contains(&op) {
            return format!("{} separate extend calls of three values each, without pre-sizing", 1u32 << (op - 800));
        }
        if op < 800 {
            return format!("copy({})", S::show(&self.values[op as usize]));
        }
        let nb = self.batches.len() as u32;
        let (r, b) = ((op - 1000) / nb, (op - 1000) % nb);
        let batch: Vec<String> = self.batches[b as usize].iter().map(|i| S::show(&self.values[*i])).collect();
        let route = [
            "stack := merge_capacity([stack holding the batch])",
            "stack := merge_capacity([self, stack holding the batch]), re-copy own items",
            "reserve(batch length) (index share only)",
            "stack := with_capacity(batch length) (index share only)",
            "FlatStack::reserve_items(&batch) (region share only)",
            "FlatStack::reserve_regions([region holding the batch]) (region share only)",
        ][r as usize];
        format!("{route}; then copy exactly [{}]", batch.join(", "))
    }
    fn step(&mut self, op: OpId) -> Step {
        let copy = self.caps.copy_ref.or(self.caps.copy_owned).unwrap();
        if (800..900).contains(&op) {
            // O(log n) allocator calls per storage also when the items arrive in many small extend calls
            self.done = true;
            let n = 1usize << (op - 800);
            let ext = self.caps.extend.unwrap();
            let nv = self.values.len();
            let batches: Vec<Vec<S::V>> = (0..n).map(|i| (0..3).map(|j| self.values[(i + j) % nv].clone()).collect()).collect();
            let st = &mut self.st;
            let res = guard(|| {
                // the batches are moved in: no harness-side allocation inside the window
                let a0 = alloc_count::calls();
                for b in batches {
                    ext(st, b);
                }
                alloc_count::calls() - a0
            });
            let calls = match res {
                Ok(c) => c,
                Err(p) => return Step::Violation(format!("extend panicked: {p}")),
            };
            let mut storages = 0u64;
            let mut max_used = 2usize;
            self.st.heap_size(|u, _| {
                storages += 1;
                max_used = max_used.max(u);
            });
            let log = (usize::BITS - (max_used - 1).leading_zeros()) as u64;
            let bound = storages * (2 * log + 8);
            if calls > bound {
                return Step::Violation(format!(
                    "{calls} allocator calls for {n} extend calls of three items; {storages} storages with at most {max_used} bytes each allow {bound} (O(log n) per storage)"
                ));
            }
            self.tags.push(format!("stack-log:n{n}"));
            return Step::Ok;
        }
        if op < 800 {
            let v = self.values[op as usize].clone();
            let st = &mut self.st;
            if let Err(p) = guard(|| copy(st, &v)) {
                return Step::Violation(format!("copy panicked: {p}"));
            }
            self.copied.push(op as usize);
            return Step::Ok;
        }
        self.done = true;
        let nb = self.batches.len() as u32;
        let (route, bi) = ((op - 1000) / nb, (op - 1000) % nb);
        let ids = self.batches[bi as usize].clone();
        let mut to_copy: Vec<S::V> = Vec::new();
        // only vector-backed structural regions promise not to reallocate (C17); for the others the
        // FlatStack's own vector index storage is what is checked
        let mut index_only = !self.e.vector_backed;
        let mut region_only = false;
        match route {
            0 => {
                let src = self.stack_of(&ids);
                self.st = FS::<S, C>::merge_capacity(std::iter::once(&src));
            }
            1 => {
                let src = self.stack_of(&ids);
                let m = FS::<S, C>::merge_capacity([&self.st, &src].into_iter());
                self.st = m;
                to_copy.extend(self.copied.iter().map(|i| self.values[*i].clone()));
            }
            2 => {
                self.st.reserve(ids.len());
                index_only = true;
            }
            3 => {
                self.st = FS::<S, C>::with_capacity(ids.len());
                index_only = true;
            }
            4 => {
                let batch: Vec<S::V> = ids.iter().map(|i| self.values[*i].clone()).collect();
                (self.caps.reserve_items.unwrap())(&mut self.st, &batch);
                region_only = true;
            }
            _ => {
                let mut src: S::R = Default::default();
                for i in &ids {
                    let _ = S::canon_push(&mut src, &self.values[*i]);
                }
                self.st.reserve_regions(std::iter::once(&src));
                region_only = true;
            }
        }
        to_copy.extend(ids.iter().map(|i| self.values[*i].clone()));
        let before = stack_caps::<S, C>(&self.st);
        let st = &mut self.st;
        let res = guard(|| {
            let a0 = alloc_count::calls();
            for v in &to_copy {
                copy(st, v);
            }
            alloc_count::calls() - a0
        });
        let calls = match res {
            Ok(c) => c,
            Err(p) => return Step::Violation(format!("copy panicked: {p}")),
        };
        let after = stack_caps::<S, C>(&self.st);
        let k = self.caps.index_callbacks;
        if region_only && !self.e.vector_backed {
            // neither share is promised to stay put
            self.tags.push(format!("stack-route{route}:not-applicable"));
            return Step::Ok;
        }
        let (b, a) = if region_only {
            (&before[..before.len() - k], &after[..after.len() - k])
        } else if index_only {
            (&before[before.len() - k..], &after[after.len() - k..])
        } else {
            (&before[..], &after[..])
        };
        if b != a {
            return Step::Violation(format!(
                "capacities changed while copying exactly the announced contents ({} items): {before:?} -> {after:?}{}",
                to_copy.len(),
                if index_only { " (index share = last entries)" } else { "" }
            ));
        }
        if !index_only && !region_only && self.e.plain && self.caps.copy_ref.is_some() && calls != 0 {
            return Step::Violation(format!("{calls} allocator calls while copying exactly the announced plain-data contents"));
        }
        self.tags.push(format!("stack-route{route}:batch{}", ids.len()));
        Step::Ok
    }
    fn fingerprint(&self) -> Option<String> {
        None
    }
    fn drain_tags(&mut self) -> Vec<String> {
        std::mem::take(&mut self.tags)
    }
}

// ---------------------------------------------------------------------------------------------
// C18: no reported capacity shrinks at clear, also for one very large allocation (> 64 MiB)

pub struct HugeClearMachine<S: Spec> {
    make: fn(usize) -> S::V,
    size: usize,
    label: &'static str,
    r: S::R,
    stage: u8,
    tags: Vec<String>,
}

impl<S: Spec> HugeClearMachine<S> {
    pub fn new(make: fn(usize) -> S::V) -> Self {
        HugeClearMachine { make, size: 72 << 20, label: "one item of 72 MiB", r: Default::default(), stage: 0, tags: vec![] }
    }
    pub fn sized(make: fn(usize) -> S::V, size: usize, label: &'static str) -> Self {
        HugeClearMachine { make, size, label, r: Default::default(), stage: 0, tags: vec![] }
    }
}

impl<S: Spec> Machine for HugeClearMachine<S> {
    fn name(&self) -> String {
        format!("alloc/huge-clear/{}/{}", S::name(), self.size)
    }
    fn reset(&mut self) {
        self.r = Default::default();
        self.stage = 0;
    }
    fn enabled(&self) -> Vec<OpId> {
        match self.stage {
            0 => vec![0],
            1 => vec![1],
            _ => vec![],
        }
    }
    fn describe(&self, op: OpId) -> String {
        if op == 0 {
            format!("push {}", self.label)
        } else {
            "clear()".into()
        }
    }
    fn step(&mut self, op: OpId) -> Step {
        if op == 0 {
            let v = (self.make)(self.size);
            let r = &mut self.r;
            let idx = match guard(|| S::canon_push(r, &v)) {
                Ok(i) => i,
                Err(p) => return Step::Violation(format!("push panicked: {p}")),
            };
            if let Err(e) = S::check(self.r.index(idx), &v) {
                return Step::Violation(format!("{} does not read back: {e}", self.label));
            }
            self.stage = 1;
            return Step::Ok;
        }
        let before = caps(&self.r);
        self.r.clear();
        let after = caps(&self.r);
        self.stage = 2;
        if after.len() < before.len() {
            return Step::Violation(format!(
                "after clear() heap_size reports {} storages, before it {}: allocations that are still held went missing",
                after.len(),
                before.len()
            ));
        }
        if let Some(k) = before.iter().zip(&after).position(|(b, a)| a < b) {
            return Step::Violation(format!("after clear() the reported capacity of storage #{k} shrank: {} -> {}", before[k], after[k]));
        }
        self.tags.push("huge-clear".into());
        Step::Ok
    }
    fn fingerprint(&self) -> Option<String> {
        None
    }
    fn drain_tags(&mut self) -> Vec<String> {
        std::mem::take(&mut self.tags)
    }
}
